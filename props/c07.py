"""C07 — a search over the shares returns exactly the matching files: correspondence K_C07 + monitor.

The implementation side drives the REAL `SharesManager` on a real temporary tree (virtual-time loop with an
inline executor for the scanner). The model side pipes the same history through `Driver/C07.lean`. The monitor
is a brute-force matcher over the files the harness itself put on disk (no `re`, no term map).
"""
from __future__ import annotations

import asyncio
import os
import random
import re
import shutil
import tempfile
from typing import Any

from vlib import common
from vlib.common import KResult, Violation, Disagreement, Property

# ------------------------------------------------------------------------------------------------
# alphabet (the property's): letters, digits, separators, accents, CJK — lower-casing is 1:1 on it
# ------------------------------------------------------------------------------------------------
SEPS = " _-.()[]'&"
LETTERS = 'abcdefghijklmnopqrstuvwxyzABCDEFGHIJKLMNOPQRSTUVWXYZ'
DIGITS = '0123456789'
ACCENTS = 'éÉèÈêüÜñÑöÖçÇåÅøØ'
CJK = '日本語音楽中文'
ALPHABET = SEPS + LETTERS + DIGITS + ACCENTS + CJK + '*\t\\/'

_WORD_RE = re.compile(r'[^\W_]')


def _isw_re(c: str) -> bool:
    return bool(_WORD_RE.fullmatch(c))


def _self_check_alphabet():
    """The assumptions the Lean model makes about characters (`Cls.Lawful`) and the agreement between the
    monitor's own classification and Python's `re` — on the alphabet the generator draws from."""
    for c in ALPHABET:
        lo = c.lower()
        assert len(lo) == 1, c
        assert lo.lower() == lo
        assert _isw_re(lo) == _isw_re(c)
        assert _isw_re(c) == c.isalnum(), c
    assert not _isw_re('*') and not _isw_re('-')
    for c in ALPHABET:
        for d in ALPHABET:
            if c in '\t':
                continue
            m = bool(re.fullmatch(re.escape(c.lower()), d, flags=re.IGNORECASE))
            assert m == (c.lower() == d.lower()), (c, d)


_self_check_alphabet()

WORDS = ['sing', 'ring', 'king', 'thing', 'string', 'Ding', 'rock', 'rocks', 'Rocker', 'bedrock', 'ROCK',
         'live', 'Live', 'alive', 'love', 'glove', 'mp3', 'flac', 'MP3', '01', '02', '101', '2001', '1',
         'café', 'CAFÉ', 'Café', 'niño', 'NIÑO', 'über', 'Über', 'garçon', 'Åre', 'søn', 'SØN',
         '音楽', '日本語', '中文', '日本', '語', 'a', 'A', 'ab', 'b', 'track', 'Track', 'backtrack',
         'one', 'tone', 'stone', 'STONE', 'été', 'ÉTÉ']
EXTS = ['mp3', 'flac', 'MP3', 'ogg']
JOINERS = [' ', ' ', '_', '-', '.', ' - ', ' (', ') ', '[', ']', "'", ' & ', '&', '__', ').', ' ']


# ------------------------------------------------------------------------------------------------
# generator
# ------------------------------------------------------------------------------------------------

def _gen_name(rng: random.Random, nwords: int) -> str:
    s = rng.choice(['', '', '', '(', '[', '_'])
    for i in range(nwords):
        if i:
            s += rng.choice(JOINERS)
        s += rng.choice(WORDS)
    s += rng.choice(['', '', ')', ']', '_'])
    s = s.strip(' ')
    return s or 'x'


EXT_SHAPES = ['digits', 'paren', 'bracket', 'underscore', 'letter', 'space-word', 'dash', 'dot']


def _extend_name(rng: random.Random, name: str, shape: str | None = None) -> tuple[str, str]:
    """A directory name that EXTENDS `name` as a string (`CD1` -> `CD10`, `CD1 (bonus)`, `Album [Deluxe]`, ...):
    as a path component it is a different directory, as a string the other one is its prefix."""
    shape = shape or rng.choice(EXT_SHAPES)
    if shape == 'digits':
        ext = rng.choice(['0', '1', '2', '10', '01'])
    elif shape == 'paren':
        ext = ' (' + rng.choice(['bonus', 'live', 'Live', '2', 'b', 'été']) + ')'
    elif shape == 'bracket':
        ext = ' [' + rng.choice(['Deluxe', 'flac', '2001', 'a', '日本']) + ']'
    elif shape == 'underscore':
        ext = '_' + rng.choice(['z', 'b', '2', 'live', ''])
    elif shape == 'letter':
        ext = rng.choice('absxzé楽S')
    elif shape == 'space-word':
        ext = ' ' + rng.choice(['bonus', 'two', '2', 'live'])
    elif shape == 'dash':
        ext = rng.choice(['-', ' - ']) + rng.choice(['b', '2', 'Live'])
    else:
        ext = '.' + rng.choice(['1', 'bak', 'd'])
    return shape, name + ext


def _gen_tree(rng: random.Random, shapes: list | None = None):
    """Returns (dirs, files): relative directory paths ('.' = root) and relative file paths. About a quarter of
    the directories get a name that extends the name of a directory beside them (or of their own parent)."""
    dirs = ['.']
    ndirs = rng.choice([0, 1, 2, 3, 4, 5, 6])
    for _ in range(ndirs):
        parent = rng.choice(dirs)
        if parent.count('/') >= 3:
            parent = '.'
        name = _gen_name(rng, rng.choice([1, 1, 2]))
        sibs = [d for d in dirs if d != '.' and (os.path.dirname(d) or '.') == parent]
        if sibs and rng.random() < 0.3:
            shape, name = _extend_name(rng, os.path.basename(rng.choice(sibs)))
            if shapes is not None:
                shapes.append('tree:' + shape)
        d = name if parent == '.' else parent + '/' + name
        if d not in dirs and name not in ('.', '..'):
            dirs.append(d)
    files = []
    nfiles = rng.choice([1, 2, 3, 5, 8, 12, 20, 30])
    for _ in range(nfiles):
        d = rng.choice(dirs)
        name = _gen_name(rng, rng.choice([1, 2, 2, 3, 4])) + '.' + rng.choice(EXTS)
        f = name if d == '.' else d + '/' + name
        if f not in files and f not in dirs:
            files.append(f)
    return dirs, files


def _split_words(s: str) -> list[str]:
    out, cur = [], ''
    for c in s:
        if c.isalnum():
            cur += c
        else:
            if cur:
                out.append(cur)
            cur = ''
    if cur:
        out.append(cur)
    return out


def _recase(rng, w):
    r = rng.random()
    if r < 0.4:
        return w
    if r < 0.6:
        return w.lower()
    if r < 0.8:
        return w.upper() if len(w.upper()) == len(w) else w
    return ''.join(c.upper() if rng.random() < 0.5 and len(c.upper()) == 1 else c.lower() for c in w)


def _gen_term(rng: random.Random, files: list[str], words: list[str]) -> str:
    kind = rng.choice(['word', 'word', 'sub', 'suffix', 'wild-suffix', 'wild-suffix', 'wild-word', 'punct',
                       'punct', 'excl', 'excl-sub', 'absent', 'junk', 'wild-punct', 'wild-absent', 'excl-punct',
                       'excl-wrapped', 'incl-wrapped'])
    w = rng.choice(words) if words else 'zz'
    if kind == 'excl-punct':
        # an exclude term spanning separators: the literal punctuated text is what is excluded, not its words
        kind = 'punct'
        return '-' + _gen_term_kind(rng, files, words, w, kind)
    if kind in ('excl-wrapped', 'incl-wrapped'):
        # ONE word with leading / trailing punctuation ("-(live)", "-live.", "[2001]"): cleans to a single word, but the
        # term only matches where that punctuation really surrounds the word
        a, b = rng.choice([('(', ')'), ('[', ']'), ('', '.'), ('.', ''), ("'", "'"), ('_', ''), ('', '_'), ('&', ''),
                           ('', '-'), ('(', ''), ('', ')'), ('-', ''), ('..', ''), ('', '!')])
        return ('-' if kind == 'excl-wrapped' else '') + a + _recase(rng, w) + b
    return _gen_term_kind(rng, files, words, w, kind)


def _gen_term_kind(rng: random.Random, files: list[str], words: list[str], w: str, kind: str) -> str:
    if kind == 'word':
        return _recase(rng, w)
    if kind == 'sub':
        i = rng.randrange(len(w))
        j = rng.randrange(i + 1, len(w) + 1)
        return _recase(rng, w[i:j])
    if kind == 'suffix':
        return _recase(rng, w[rng.randrange(len(w)):])
    if kind == 'wild-suffix':
        # prefer a suffix shared by several different words
        sufs = {}
        for x in words:
            xl = x.lower()
            for k in range(1, len(xl) + 1):
                sufs.setdefault(xl[-k:], set()).add(xl)
        shared = [s for s, ws in sufs.items() if len(ws) >= 2]
        s = rng.choice(shared) if shared and rng.random() < 0.8 else w[rng.randrange(len(w)):]
        return '*' + _recase(rng, s)
    if kind == 'wild-word':
        return '*' + _recase(rng, w)
    if kind in ('punct', 'wild-punct'):
        # a slice of a real file path spanning separators (sometimes with one separator altered)
        f = rng.choice(files) if files else 'a.b'
        f = f.replace('/', '\\')
        idx = [i for i, c in enumerate(f) if c.isalnum()]
        i = rng.choice(idx) if idx else 0
        j = min(len(f), i + rng.choice([2, 3, 4, 6, 9, 14]))
        t = f[i:j]
        # whitespace splits terms: keep one token
        t = t.replace(' ', rng.choice(['_', '-', ' ', '.']))
        t = t.split(' ')[0] or 'a'
        if rng.random() < 0.3:
            # extend to the left by one separator / start inside a word
            i2 = max(0, i - 1)
            t = (f[i2] if f[i2] != ' ' else '(') + t
        if rng.random() < 0.25 and len(t) > 1:
            k = rng.randrange(len(t))
            t = t[:k] + rng.choice(".-_()[]'&") + t[k + 1:]
        t = _recase(rng, t)
        return ('*' if kind == 'wild-punct' else '') + t
    if kind == 'excl':
        return '-' + _recase(rng, w)
    if kind == 'excl-sub':
        return '-' + _recase(rng, w[:max(1, len(w) - 1)])
    if kind == 'absent':
        return rng.choice(['zzz', 'qqq', 'rin', 'ingx', '999', 'cafe', 'nino', '音', 'roc'])
    if kind == 'wild-absent':
        return '*' + rng.choice(['zzz', 'xing', 'q', 'ingg'])
    return rng.choice(['-', '*', '--', '*.', '-_', '*-', '*_a', '-*ing', '**ing', '*-ing', "'", '&', '_'])


def _gen_query(rng: random.Random, files: list[str]) -> str:
    words = sorted({w for f in files for w in _split_words(f)})
    n = rng.choice([1, 1, 2, 2, 3, 4])
    if rng.random() < 0.65:
        # anchored on one file: positive terms come from that file's own words (so that the query can match and
        # the interesting question is WHICH other files match too), negative terms from anywhere
        f = rng.choice(files)
        own = _split_words(f) or ['a']
        terms = []
        for _ in range(n):
            r = rng.random()
            w = rng.choice(own)
            if r < 0.3:
                terms.append(_recase(rng, w))
            elif r < 0.55:
                terms.append('*' + _recase(rng, w[rng.randrange(len(w)):]))
            elif r < 0.75:
                terms.append(_gen_term(rng, [f], own))
            elif r < 0.9:
                terms.append(_gen_term(rng, files, words))
            else:
                terms.append('-' + _recase(rng, rng.choice(words)))
    else:
        terms = [_gen_term(rng, files, words) for _ in range(n)]
    if rng.random() < 0.22:
        # the SAME text in terms of different kinds ("*mix -mix", "live -LIVE", "ing *ing", a term twice): each term is
        # judged on its own — whatever is remembered about a term's text must not leak from one kind to another
        for _ in range(rng.choice([1, 1, 2])):
            t = rng.choice(terms)
            core = t.lstrip('*-') if t[:1] in '*-' else t
            if not core:
                continue
            prefixes = [x for x in ('', '*', '-') if x + core != t] + [t[:1] if t[:1] in '*-' else '']
            echo = rng.choice(prefixes) + (core if rng.random() < 0.6 else _recase(rng, core))
            terms.insert(rng.randrange(len(terms) + 1), echo)
    sep = rng.choice([' ', ' ', ' ', '  ', '\t'])
    q = sep.join(terms)
    if rng.random() < 0.1:
        q = ' ' + q + ' '
    return q


def _gen_chain_case(rng: random.Random) -> dict:
    """Three or four shared directories nested in one another, added in any order, one removed: exercises the
    choice of the INNERMOST parent on add and on remove."""
    names = [_gen_name(rng, 1) for _ in range(4)]
    depth = rng.choice([3, 3, 4])
    chain = ['/'.join(names[:k]) for k in range(1, depth + 1)]
    if rng.random() < 0.3:
        chain = ['.'] + chain[:-1]
    files = []
    for d in chain:
        for _ in range(rng.choice([1, 1, 2])):
            f = (_gen_name(rng, rng.choice([1, 2])) + '.' + rng.choice(EXTS))
            f = f if d == '.' else d + '/' + f
            if f not in files and f not in chain:
                files.append(f)
    ops: list = [['touch', f] for f in files]
    order = list(chain)
    rng.shuffle(order)
    first = order[0]
    ops += [['add', first], ['scan', first], ['stats']]
    for d in order[1:]:
        ops += [['add', d], ['stats']]
        if rng.random() < 0.5:
            ops += [['scan', d], ['stats']]
    if rng.random() < 0.5 and len(ops) < 30:
        ops += [['scanall'], ['stats']]
    victim = rng.choice(chain)
    ops += [['remove', victim, rng.choice(['str', 'obj'])], ['stats']]
    for _ in range(4):
        ops.append(['query', _gen_query(rng, files)])
    if rng.random() < 0.5:
        ops += [['add', victim], ['stats'], ['query', _gen_query(rng, files)]]
    return {'cap': rng.choice([1, 2, 100]), 'ops': ops, 'meta': {'scenario': 'chain'}}


def _gen_twin_case(rng: random.Random) -> dict:
    """Two (or three) shared directories — side by side or nested — that hold a file at the SAME relative path with the same
    name and exactly the same modification time (a copy that preserves times): the two are different shared files, both are
    indexed, both are found, and un-sharing one directory leaves the other's file searchable."""
    a, b = rng.choice([('t1', 't2'), ('m/one', 'm/two'), ('m', 'm/in'), ('x/y', 'z'), ('p', 'p/q/r')])
    extra = rng.choice([None, None, 't3'])
    subs = [rng.choice(['', '', 'cd', _gen_name(rng, 1)]) for _ in range(rng.choice([1, 2, 3]))]
    ops: list = []
    files: list[str] = []

    def j(*parts):
        return '/'.join(x for x in parts if x)

    for sub in subs:
        name = _gen_name(rng, rng.choice([1, 2, 2])) + '.' + rng.choice(EXTS)
        src = j(a, sub, name)
        if src in files:
            continue
        ops.append(['touch', src])
        files.append(src)
        for d in [b] + ([extra] if extra else []):
            if rng.random() < 0.85:
                dst = j(d, sub, name)
                if dst not in files:
                    ops.append(['copy', src, dst])
                    files.append(dst)
    # some files of their own
    for d in (a, b):
        if rng.random() < 0.6:
            f = j(d, _gen_name(rng, 2) + '.' + rng.choice(EXTS))
            if f not in files:
                ops.append(['touch', f])
                files.append(f)
    order = [a, b] + ([extra] if extra else [])
    rng.shuffle(order)
    for d in order:
        ops.append(['add', d])
        if rng.random() < 0.5:
            ops.append(['scan', d])
    ops += [['scanall'], ['stats']]
    for _ in range(4):
        ops.append(['query', _gen_query(rng, files)])
    victim = rng.choice(order)
    ops += [['remove', victim, rng.choice(['str', 'obj'])], ['stats']]
    for _ in range(4):
        ops.append(['query', _gen_query(rng, files)])
    if rng.random() < 0.5:
        ops += [['add', victim], ['scanall'], ['stats'], ['query', _gen_query(rng, files)]]
    return {'cap': rng.choice([2, 5, 100, 100]), 'ops': ops, 'meta': {'scenario': 'twins'}}


def _gen_sibling_case(rng: random.Random) -> dict:
    """A nested shared directory (`P/CD1`) beside directories whose NAMES extend its name (`P/CD10`, `P/CD1 (bonus)`,
    `P/Album [Deluxe]`, ...) or whose name it extends (shared `P/CD10` beside `P/CD1`), with files directly in them and
    one level deeper; the parent is (re)scanned while the child is shared. Nested-ness is a matter of path COMPONENTS:
    the extended siblings belong to the parent."""
    base = rng.choice(['CD1', 'CD1', 'Album', 'Disc 1', 'Live', _gen_name(rng, 1), _gen_name(rng, 1), _gen_name(rng, 2)])
    parent = rng.choice(['.', '.', 'm', _gen_name(rng, 1), 'm/' + _gen_name(rng, 1)])
    shapes = []
    sibs = []
    for _ in range(rng.choice([1, 2, 2, 3])):
        shape, nm = _extend_name(rng, base)
        if nm not in sibs and nm != base:
            sibs.append(nm)
            shapes.append(shape)
    direction = rng.choice(['child-is-prefix', 'child-is-prefix', 'child-is-prefix', 'child-is-extension'])
    if direction == 'child-is-prefix':
        child_name, others = base, sibs
    else:
        child_name, others = sibs[0], [base] + sibs[1:]

    def j(*parts):
        return '/'.join(x for x in parts if x != '.')

    child = j(parent, child_name)
    other_dirs = [j(parent, o) for o in others]
    files: list[str] = []

    def put(d, n=1):
        for _ in range(n):
            f = j(d, _gen_name(rng, rng.choice([1, 2, 2])) + '.' + rng.choice(EXTS))
            if f not in files:
                files.append(f)

    put(parent, rng.choice([0, 1]))
    put(child, rng.choice([1, 2]))
    if rng.random() < 0.5:
        put(j(child, _gen_name(rng, 1)), 1)
    sib_files_from = len(files)
    for o in other_dirs:
        put(o, rng.choice([1, 1, 2]))
        if rng.random() < 0.6:
            # one level deeper, sometimes under a name that again extends the child's name
            inner = _extend_name(rng, child_name)[1] if rng.random() < 0.3 else _gen_name(rng, 1)
            put(j(o, inner), 1)
    if rng.random() < 0.3:
        # the same pair of names one level deeper, inside a sibling
        put(j(other_dirs[0], child_name), 1)
    sib_files = files[sib_files_from:]
    ops: list = [['touch', f] for f in files]

    def obs(k=2):
        ops.append(['stats'])
        for _ in range(k):
            ops.append(['query', _gen_query(rng, sib_files if rng.random() < 0.7 else files)])

    order = rng.choice(['parent-first', 'parent-first', 'child-first', 'both-then-scanall'])
    if order == 'parent-first':
        ops += [['add', parent], ['scan', parent]]
        obs(1)
        ops += [['add', child]]
        if rng.random() < 0.6:
            ops += [['scan', child]]
        obs(1)
        ops += [['scan', parent] if rng.random() < 0.7 else ['scanall']]
    elif order == 'child-first':
        ops += [['add', child], ['scan', child], ['add', parent], ['scan', parent] if rng.random() < 0.6 else ['scanall']]
    else:
        ops += [['add', parent], ['add', child], ['scanall']]
    obs(3)
    if rng.random() < 0.5:
        # a sibling becomes a nested share too
        ops += [['add', other_dirs[0]], ['scan', parent]]
        obs(2)
    if rng.random() < 0.5:
        ops += [['remove', child, rng.choice(['str', 'obj'])], ['scan', parent]]
        obs(2)
    return {'cap': rng.choice([1, 3, 100, 100]), 'ops': ops,
            'meta': {'scenario': 'sibling', 'shapes': shapes, 'direction': direction}}


def _gen_case(rng: random.Random) -> dict:
    r0 = rng.random()
    if r0 < 0.13:
        return _gen_chain_case(rng)
    if r0 < 0.27:
        return _gen_sibling_case(rng)
    if r0 < 0.35:
        return _gen_twin_case(rng)
    tree_shapes: list = []
    dirs, files = _gen_tree(rng, tree_shapes)
    ops: list = [['touch', f] for f in files]
    disk = list(files)
    shared: list[str] = []
    ever: list[str] = []
    cap = rng.choice([1, 1, 2, 3, 5, 10, 100, 100, rng.randint(1, 100)])
    nshare = rng.randint(1, 8)
    nested_bias = rng.random() < 0.6

    def pick_dir():
        if nested_bias and shared and rng.random() < 0.6:
            base = rng.choice(shared)
            rel = [d for d in dirs if d != base and (base == '.' or d.startswith(base + '/') or base.startswith(d + '/') or d == '.')]
            if rel:
                return rng.choice(rel)
        r = rng.random()
        if r < 0.05:
            return rng.choice(['nonexistent', 'rock/none'])
        return rng.choice(dirs)

    def queries(k):
        for _ in range(k):
            if disk or files:
                ops.append(['query', _gen_query(rng, disk or files)])

    unreadable = rng.random() < 0.3      # entries the scan cannot stat: dangling / self-referencing symbolic links
    links: list[str] = []

    def link_ops(k):
        for _ in range(k):
            d = rng.choice(dirs)
            # named like the real files (their words), so that an index that takes such an entry in shows it in results
            name = _gen_name(rng, rng.choice([1, 2])) + '.' + rng.choice(EXTS)
            f = name if d == '.' else d + '/' + name
            if f not in disk and f not in dirs and f not in links and f not in files:
                links.append(f)
                ops.append(['link', f, rng.choice([0, 0, 1])])

    if unreadable:
        link_ops(rng.choice([1, 2, 3]))
    budget = [8 - nshare - 1]          # histories stay within 8 share operations (one kept for the final scan)
    for i in range(nshare):
        r = rng.random()
        if not shared or r < 0.3:
            d = pick_dir()
            ops.append(['add', d])
            if d not in shared:
                shared.append(d)
                ever.append(d)
            if rng.random() < 0.55 and budget[0] > 0:
                budget[0] -= 1
                ops.append(['stats'])
                ops.append(['scan', d] if rng.random() < 0.7 else ['scanall'])
        elif r < 0.45:
            d = rng.choice(shared + ([rng.choice(dirs)] if rng.random() < 0.2 else []))
            ops.append(['remove', d, rng.choice(['str', 'obj'])])
            if d in shared:
                shared.remove(d)
        elif r < 0.5:
            ops.append(['update', rng.choice(shared + [rng.choice(dirs)]), rng.choice(['everyone', 'friends', 'users'])])
        elif r < 0.8:
            cands = shared + ([rng.choice(ever)] if rng.random() < 0.15 else [])
            ops.append(['scan', rng.choice(cands)])
        else:
            ops.append(['scanall'])
        ops.append(['stats'])
        queries(rng.choice([0, 1, 2, 3]))
        # the disk moves on
        if unreadable and rng.random() < 0.35:
            if links and rng.random() < 0.4:
                f = rng.choice(links)
                links.remove(f)
                ops.append(['unlink', f])
            else:
                link_ops(1)
        for _ in range(rng.choice([0, 0, 0, 1, 2])):
            r2 = rng.random()
            if r2 < 0.4 and disk:
                f = rng.choice(disk)
                disk.remove(f)
                ops.append(['rm', f])
            elif r2 < 0.6 and disk:
                ops.append(['mod', rng.choice(disk)])
            elif len(disk) < 30:
                d = rng.choice(dirs)
                name = _gen_name(rng, rng.choice([1, 2, 3])) + '.' + rng.choice(EXTS)
                f = name if d == '.' else d + '/' + name
                if f not in disk and f not in dirs and f not in links:
                    disk.append(f)
                    ops.append(['touch', f])
    if rng.random() < 0.7 and nshare < 8:
        ops.append(['scanall'])
        ops.append(['stats'])
    queries(rng.choice([3, 5, 8]))
    case = {'cap': cap, 'ops': ops}
    if tree_shapes:
        case['meta'] = {'scenario': 'general', 'shapes': tree_shapes}
    return case


# ------------------------------------------------------------------------------------------------
# encoding shared with the Lean driver
# ------------------------------------------------------------------------------------------------

def _cps(s: str) -> str:
    return ','.join(str(ord(c)) for c in s)


def _enc_path(rel: str) -> str:
    if rel in ('.', ''):
        return '.'
    return '/'.join(_cps(c) for c in rel.split('/'))


def _item_key(sd_rel: str, subdir: str, filename: str) -> str:
    return f'{_enc_path(sd_rel)}:{_enc_path(subdir)}:{_cps(filename)}'


def _terms(ts) -> str:
    return ' '.join(sorted(_cps(t) for t in ts))


# ------------------------------------------------------------------------------------------------
# implementation side
# ------------------------------------------------------------------------------------------------

def _run_impl(case: dict) -> list:
    """One observation per op (None for disk ops)."""
    from vlib.simloop import SimLoop
    from aioslsk.shares.manager import SharesManager
    from aioslsk.shares.model import DirectoryShareMode
    from aioslsk.search.model import SearchQuery
    from aioslsk.settings import Settings
    from aioslsk.events import EventBus
    from aioslsk.exceptions import SharedDirectoryError

    import logging
    import aioslsk.shares.manager as shm
    logging.getLogger('aioslsk').setLevel(logging.CRITICAL)
    shm.extract_attributes = lambda filepath: []       # audio attributes (mutagen) are not part of C07
    root = os.path.realpath(tempfile.mkdtemp(prefix='c07-'))
    loop = SimLoop()
    obs: list = []
    keep = []                      # objects the API returned are kept, as a caller would

    def ap(rel):
        return root if rel == '.' else os.path.join(root, rel)

    def rel(abs_path):
        r = os.path.relpath(abs_path, root)
        return r

    try:
        settings = Settings(credentials={'username': 'u', 'password': 'p'})
        settings.searches.receive.max_results = case['cap']
        bus = EventBus()
        mgr = SharesManager(settings, bus, None)
        if case.get('pickling'):
            # the documented `executor_factory=ProcessPoolExecutor` configuration: scan calls and results are pickled
            from vlib.simloop import PicklingExecutor
            mgr.executor = PicklingExecutor()
        current: dict[str, Any] = {}
        stale: dict[str, Any] = {}
        clock = [1_000_000]

        def dump():
            paths = ' '.join(_enc_path(rel(d.absolute_path)) for d in mgr.shared_directories)
            items = []
            for d in mgr.shared_directories:
                for it in d.items:
                    k = _item_key(rel(it.shared_directory.absolute_path), it.subdir, it.filename)
                    if it.shared_directory is not d:
                        k = f'HELD-BY({_enc_path(rel(d.absolute_path))})' + k
                    items.append(k)
            tm = set()
            for ws in mgr._term_map.values():
                for it in ws:
                    tm.add((id(it), _item_key(rel(it.shared_directory.absolute_path), it.subdir, it.filename)))
            st = mgr.get_stats()
            return (f'paths={paths}|items={" ".join(sorted(items))}|tm={" ".join(sorted(k for _, k in tm))}'
                    f'|stats={st[0]} {st[1]}')

        def index_view():
            """abs relative file path -> list of owning shared directories (relative), from the real index"""
            view: dict[str, list] = {}
            for d in mgr.shared_directories:
                for it in d.items:
                    view.setdefault(rel(it.get_absolute_path()), []).append(rel(d.absolute_path))
            return view

        for op in case['ops']:
            kind = op[0]
            if kind == 'touch':
                p = ap(op[1])
                os.makedirs(os.path.dirname(p), exist_ok=True)
                with open(p, 'w'):
                    pass
                clock[0] += 10
                os.utime(p, (clock[0], clock[0]))
                obs.append(None)
            elif kind == 'rm':
                try:
                    os.remove(ap(op[1]))
                except OSError:
                    pass
                obs.append(None)
            elif kind == 'mod':
                clock[0] += 10
                try:
                    os.utime(ap(op[1]), (clock[0], clock[0]))
                except OSError:
                    pass
                obs.append(None)
            elif kind == 'copy':
                # `cp -p` / `rsync -t` / the same archive unpacked twice: another file with the SAME modification time
                import shutil as _sh
                src, dst = ap(op[1]), ap(op[2])
                os.makedirs(os.path.dirname(dst), exist_ok=True)
                _sh.copyfile(src, dst)
                st = os.stat(src)
                os.utime(dst, ns=(st.st_atime_ns, st.st_mtime_ns))
                obs.append(None)
            elif kind == 'link':
                # an entry of the directory that cannot be stat'ed: a symbolic link whose target is gone (op[2] == 0) or
                # a link that points at itself (ELOOP, op[2] == 1) — os.walk lists it among the files, getmtime raises
                lp = ap(op[1])
                os.makedirs(os.path.dirname(lp), exist_ok=True)
                if not os.path.lexists(lp):
                    os.symlink(lp + '.gone' if op[2] == 0 else os.path.basename(lp), lp)
                obs.append(None)
            elif kind == 'unlink':
                try:
                    if os.path.islink(ap(op[1])):
                        os.remove(ap(op[1]))
                except OSError:
                    pass
                obs.append(None)
            elif kind in ('add', 'remove', 'update', 'scan', 'scanall'):
                try:
                    if kind == 'add':
                        d = mgr.add_shared_directory(ap(op[1]))
                        keep.append(d)
                        current[op[1]] = d
                    elif kind == 'remove':
                        arg = current.get(op[1]) if (op[2] == 'obj' and op[1] in current) else ap(op[1])
                        d = mgr.remove_shared_directory(arg)
                        keep.append(d)
                        stale[op[1]] = current.pop(op[1], d)
                    elif kind == 'update':
                        mgr.update_shared_directory(ap(op[1]), share_mode=DirectoryShareMode(op[2]))
                    elif kind == 'scan':
                        d = current.get(op[1]) or stale.get(op[1])
                        if d is None:
                            raise SharedDirectoryError('no object for this path (harness)')
                        loop.run_until_complete(mgr.scan_directory_files(d))
                    else:
                        loop.run_until_complete(mgr.scan())
                    res = 'ok'
                except SharedDirectoryError:
                    res = 'already-shared' if kind == 'add' else 'not-shared'
                obs.append({'res': res, 'dump': dump(), 'index': index_view()})
            elif kind == 'restart':
                # the session ends (nobody holds the old objects any more); a new one starts from the shares cache written at
                # shutdown plus the settings that list the shared directories (`store_data` / `load_data`, as the client does)
                import gc
                from aioslsk.shares.cache import SharesShelveCache
                from aioslsk.settings import SharedDirectorySettingEntry
                cdir = root + '.cache'
                os.makedirs(cdir, exist_ok=True)
                mgr.cache = SharesShelveCache(cdir)
                loop.run_until_complete(mgr.store_data())
                settings.shares.directories = [
                    SharedDirectorySettingEntry(path=d.absolute_path, share_mode=d.share_mode, users=list(d.users or []))
                    for d in mgr.shared_directories]
                had_exec = mgr.executor
                mgr = SharesManager(settings, bus, None, cache=SharesShelveCache(cdir))
                mgr.executor = had_exec
                del keep[:]
                current.clear()
                stale.clear()
                gc.collect()
                loop.run_until_complete(mgr.load_data())
                for d in mgr.shared_directories:
                    current[rel(d.absolute_path)] = d
                obs.append({'res': 'ok', 'dump': dump(), 'index': index_view()})
            elif kind == 'stats':
                st = mgr.get_stats()
                obs.append({'stats': [st[0], st[1]], 'index': index_view()})
            elif kind == 'query':
                pq = SearchQuery.parse(op[1])
                visible, locked = mgr.query(op[1])
                keep.append(visible)
                keys = sorted(_item_key(rel(it.shared_directory.absolute_path), it.subdir, it.filename)
                              for it in visible)
                obs.append({'parse': f'incl={_terms(pq.include_terms)}|excl={_terms(pq.exclude_terms)}'
                                     f'|wild={_terms(pq.wildcard_terms)}',
                            'keys': keys, 'locked': len(locked),
                            'files': sorted(rel(it.get_absolute_path()) for it in visible)})
            else:
                raise ValueError(f'unknown op {op!r}')
    finally:
        try:
            loop.close()
        except Exception:
            pass
        shutil.rmtree(root, ignore_errors=True)
        shutil.rmtree(root + '.cache', ignore_errors=True)
    return obs


def _eval_case(case):
    try:
        return _run_impl(case)
    except Exception as e:       # the real code raised: an observation, not a harness crash
        import traceback
        return [{'EXC': f'{type(e).__name__}: {e}', 'tb': traceback.format_exc()[-1500:]}]


# ------------------------------------------------------------------------------------------------
# model side
# ------------------------------------------------------------------------------------------------

def _case_chars(case: dict) -> list[str]:
    chars = set('*-\\ ')
    for op in case['ops']:
        for a in op[1:]:
            if isinstance(a, str):
                chars.update(a)
    chars.discard('/')
    more = {c.lower() for c in chars}
    return sorted(chars | more)


def _model_lines(case: dict) -> tuple[list[str], list[int]]:
    """Driver input lines, and for each op the index of its output line (or -1)."""
    lines = [f'new {case["cap"]}']
    for c in _case_chars(case):
        lo = c.lower()
        if len(lo) != 1:
            raise ValueError(f'character {c!r} outside the alphabet (lower() is not 1:1)')
        lines.append(f'cls {ord(c)} {int(_isw_re(c))} {ord(lo)} {int(c.isspace())}')
    where = []
    disk: list[str] = []

    def files():
        return ';'.join(_enc_path(f) for f in disk) if disk else '-'

    for op in case['ops']:
        k = op[0]
        if k == 'touch':
            if op[1] not in disk:
                disk.append(op[1])
            where.append(-1)
        elif k == 'copy':
            if op[2] not in disk:
                disk.append(op[2])
            where.append(-1)
        elif k == 'rm':
            if op[1] in disk:
                disk.remove(op[1])
            where.append(-1)
        elif k in ('mod', 'link', 'unlink'):       # an entry that cannot be stat'ed is not a file the scan can index
            where.append(-1)
        elif k in ('add', 'remove', 'update'):
            where.append(len(lines))
            lines.append(f'{k} {_enc_path(op[1])}')
            lines.append('dump')
        elif k == 'scan':
            where.append(len(lines))
            lines.append(f'scan {_enc_path(op[1])} {files()}')
            lines.append('dump')
        elif k == 'scanall':
            where.append(len(lines))
            lines.append(f'scanall {files()}')
            lines.append('dump')
        elif k in ('stats', 'restart'):           # a restart leaves the index as it is
            where.append(len(lines))
            lines.append('dump')
        elif k == 'query':
            where.append(len(lines))
            lines.append('query ' + (_cps(op[1]) if op[1] else ''))
        else:
            raise ValueError(op)
    return lines, where


def _compare(case: dict, impl: list, out: list[str], where: list[int]):
    """First difference between implementation and model, or None."""
    for i, op in enumerate(case['ops']):
        w = where[i]
        if w < 0:
            continue
        o = impl[i] if i < len(impl) else None
        if o is None:
            return (i, 'missing impl observation', None)
        k = op[0]
        if k in ('add', 'remove', 'update', 'scan', 'scanall'):
            m_res, m_dump = out[w], out[w + 1]
            if o['res'] != m_res:
                return (i, o['res'], m_res)
            if o['dump'] != m_dump:
                return (i, o['dump'], m_dump)
        elif k == 'restart':
            if o['dump'] != out[w]:
                return (i, o['dump'], out[w])
        elif k == 'stats':
            m = out[w].rsplit('|stats=', 1)[-1]
            if f'{o["stats"][0]} {o["stats"][1]}' != m:
                return (i, o['stats'], m)
        elif k == 'query':
            m = out[w]
            if m == 'bad-op':
                return (i, 'query', m)
            head, full = m.split('|full=', 1)
            parse, n = head.rsplit('|n=', 1)
            full_keys = full.split(' ') if full else []
            if o['parse'] != parse:
                return (i, o['parse'], parse)
            if len(o['keys']) != int(n):
                return (i, f'{len(o["keys"])} results {o["keys"]}', f'{n} of {full_keys}')
            if not set(o['keys']) <= set(full_keys) or (len(full_keys) <= case['cap'] and sorted(full_keys) != o['keys']):
                return (i, o['keys'], full_keys)
    return None


# ------------------------------------------------------------------------------------------------
# monitor: the property statement, from the files the harness put on disk
# ------------------------------------------------------------------------------------------------

def _under(d: str, path: str) -> bool:
    return d == '.' or path == d or path.startswith(d + '/')


def _innermost(shared: list[str], f: str):
    fd = os.path.dirname(f) or '.'
    best = None
    for d in shared:
        if _under(d, fd) or d == '.':
            if best is None or (0 if d == '.' else d.count('/') + 1) > (0 if best == '.' else best.count('/') + 1):
                best = d
    return best


def _contains_term(path: str, term: str, wildcard: bool) -> bool:
    """Brute force: `term` occurs in `path` case-insensitively, preceded by the start / a separator (after any
    number of word characters when `wildcard`), followed by the end / a separator."""
    n, k = len(path), len(term)
    pl, tl = [c.lower() for c in path], [c.lower() for c in term]
    for j in range(0, n - k + 1):
        if pl[j:j + k] != tl:
            continue
        if j + k < n and path[j + k].isalnum():
            continue
        if wildcard:
            i = j
            while True:
                if i == 0 or not path[i - 1].isalnum():
                    return True
                i -= 1
        elif j == 0 or not path[j - 1].isalnum():
            return True
    return False


def _spec_parse(q: str):
    incl, excl, wild = set(), set(), set()
    for term in q.split():
        lt = term.lower()
        if not any(c.isalnum() for c in lt):
            continue
        if term[0] == '*':
            wild.add(lt[1:])
        elif term[0] == '-':
            excl.add(lt[1:])
        else:
            incl.add(lt)
    return incl, excl, wild


def _spec_matches(q, path: str) -> bool:
    incl, excl, wild = q
    return (all(_contains_term(path, t, False) for t in incl)
            and all(_contains_term(path, t, True) for t in wild)
            and not any(_contains_term(path, t, False) for t in excl))


def _monitor(case: dict, impl: list) -> list[Violation]:
    vs: list[Violation] = []
    if impl and isinstance(impl[0], dict) and 'EXC' in impl[0]:
        return [Violation('C07-impl-error', 'the shares manager raised: ' + impl[0]['EXC'], case,
                          observed=impl[0].get('tb'))]
    disk: set[str] = set()
    shared: list[str] = []
    known: set[str] = set()          # files the index must hold: seen by the last scan that covered them

    def check_index(i, o):
        view = o['index']
        want = {f: _innermost(shared, f) for f in known}
        got = {f: ds for f, ds in view.items()}
        bad = [f for f in want if got.get(f) != [want[f]]] + [f for f in got if f not in want]
        if bad:
            f = sorted(bad)[0]
            vs.append(Violation('C07-index-partition',
                                f'op #{i} {case["ops"][i][:2]}: file {f!r} is indexed under {got.get(f)} '
                                f'but must be indexed exactly once, under {want.get(f)}', case,
                                observed={k: got[k] for k in sorted(got)[:8]}, required={k: want[k] for k in sorted(want)[:8]}))
            return False
        return True

    def check_stats(i, stats):
        folders = len({os.path.dirname(f) for f in known})
        if list(stats) != [folders, len(known)]:
            vs.append(Violation('C07-stats', f'op #{i}: get_stats() = {tuple(stats)} but the index holds '
                                             f'{len(known)} files in {folders} folders', case,
                                observed=list(stats), required=[folders, len(known)]))

    for i, op in enumerate(case['ops']):
        if vs:
            break
        o = impl[i] if i < len(impl) else None
        k = op[0]
        if k == 'touch':
            disk.add(op[1])
        elif k == 'copy':
            disk.add(op[2])
        elif k == 'rm':
            disk.discard(op[1])
        elif k in ('mod', 'link', 'unlink'):
            pass
        elif o is None:
            break
        elif k in ('add', 'remove', 'update', 'scan', 'scanall'):
            d = op[1] if len(op) > 1 else None
            want_res = 'ok'
            if k == 'add':
                if d in shared:
                    want_res = 'already-shared'
                else:
                    shared.append(d)
            elif k == 'remove':
                if d not in shared:
                    want_res = 'not-shared'
                else:
                    mine = {f for f in known if _innermost(shared, f) == d}
                    shared.remove(d)
                    known -= {f for f in mine if _innermost(shared, f) is None}
            elif k == 'update':
                if d not in shared:
                    want_res = 'not-shared'
            elif k == 'scan':
                if d not in shared:
                    want_res = 'not-shared'
                else:
                    known -= {f for f in known if _innermost(shared, f) == d}
                    known |= {f for f in disk if _innermost(shared, f) == d}
            else:
                known = {f for f in disk if _innermost(shared, f) is not None}
            if o['res'] != want_res:
                vs.append(Violation('C07-op-result', f'op #{i} {op}: result {o["res"]}, expected {want_res}', case,
                                    observed=o['res'], required=want_res))
                break
            if check_index(i, o):
                st = o['dump'].rsplit('|stats=', 1)[-1].split()
                check_stats(i, [int(st[0]), int(st[1])])
        elif k == 'restart':
            # a restart (cache written, read back by a new manager, settings loaded) changes nothing that is shared or known
            if check_index(i, o):
                st = o['dump'].rsplit('|stats=', 1)[-1].split()
                check_stats(i, [int(st[0]), int(st[1])])
        elif k == 'stats':
            if check_index(i, o):
                check_stats(i, o['stats'])
        elif k == 'query':
            q = _spec_parse(op[1])
            if not q[0] and not q[2]:
                continue                 # no include/wildcard term: the code answers nothing by design; no claim
            paths = {}
            for f in known:
                base = _innermost(shared, f)
                rp = f if base == '.' else f[len(base) + 1:]
                paths[f] = rp.replace('/', '\\')
            matching = {f for f, p in paths.items() if _spec_matches(q, p)}
            got = o['files']
            cap = case['cap']
            if len(set(got)) != len(got):
                vs.append(Violation('C07-query-duplicate', f'op #{i}: query {op[1]!r} returned a file twice', case,
                                    observed=got))
            elif not set(got) <= matching:
                extra = sorted(set(got) - matching)
                why = 'is not a shared file' if extra[0] not in known else 'does not match the query'
                vs.append(Violation('C07-query-unmatched', f'op #{i}: query {op[1]!r} returned {extra[0]!r} which {why}',
                                    case, observed=got, required=sorted(matching)))
            elif len(got) > cap:
                vs.append(Violation('C07-query-cap', f'op #{i}: query {op[1]!r} returned {len(got)} files, more than '
                                                     f'max_results = {cap}', case, observed=got, required=cap))
            elif len(got) != min(cap, len(matching)):
                miss = sorted(matching - set(got))
                vs.append(Violation('C07-query-missing',
                                    f'op #{i}: query {op[1]!r} (max_results {cap}) returned {len(got)} of '
                                    f'{len(matching)} matching files; missing e.g. {miss[0]!r}', case,
                                    observed=got, required=sorted(matching)))
            elif o.get('locked'):
                vs.append(Violation('C07-query-locked', f'op #{i}: query without user returned locked results', case))
    return vs


# ------------------------------------------------------------------------------------------------
# fixed findings (witnesses kept as regression cases, replayed through the generator's first slots)
# ------------------------------------------------------------------------------------------------

W_WILDCARD = {'cap': 100, 'ops': [['touch', 'm/sing a.mp3'], ['touch', 'm/ring b.mp3'], ['add', 'm'], ['scan', 'm'],
                                  ['query', '*ing'], ['query', '*ing a']]}
W_REMOVED = {'cap': 100, 'ops': [['touch', 'n/other d.mp3'], ['add', 'n'], ['scan', 'n'], ['query', 'other'],
                                 ['remove', 'n', 'str'], ['query', 'other']]}
W_VANISHED = {'cap': 100, 'ops': [['touch', 'n/other d.mp3'], ['touch', 'n/keep.mp3'], ['add', 'n'], ['scan', 'n'],
                                  ['query', 'other'], ['rm', 'n/other d.mp3'], ['scan', 'n'], ['query', 'other']]}
W_MOVED = {'cap': 100, 'ops': [['touch', 'm/rock/deep c.mp3'], ['touch', 'm/top.mp3'], ['add', 'm'], ['scan', 'm'],
                               ['add', 'm/rock'], ['stats'], ['query', 'rock'], ['query', 'deep'], ['scan', 'm/rock'],
                               ['remove', 'm/rock', 'obj'], ['stats'], ['query', 'rock'], ['query', 'deep']]}
W_SIBLING = {'cap': 100, 'ops': [['touch', 'm/CD1/one.mp3'], ['touch', 'm/CD10/ten.mp3'],
                                 ['touch', 'm/CD1 (bonus)/x/live.mp3'], ['touch', 'm/CD/zero.mp3'],
                                 ['add', 'm'], ['add', 'm/CD1'], ['scanall'], ['stats'],
                                 ['query', 'ten'], ['query', 'bonus live'], ['query', 'mp3']]}
# entries that cannot be stat'ed (a link whose target is gone, a link onto itself) are skipped, the rest of the scan counts
W_UNREADABLE = {'cap': 100, 'ops': [['touch', 'n/keep a.mp3'], ['link', 'n/gone b.mp3', 0], ['link', 'n/sub/loop c.mp3', 1],
                                    ['add', 'n'], ['scan', 'n'], ['stats'], ['query', 'keep'], ['query', 'gone'],
                                    ['touch', 'n/new d.mp3'], ['rm', 'n/keep a.mp3'], ['scanall'], ['stats'],
                                    ['query', 'keep'], ['query', 'new'], ['query', 'mp3']]}
# the same text as a wildcard term and as an exclude term: each term is judged on its own
W_SAMETEXT = {'cap': 100, 'ops': [['touch', 'm/remix one.mp3'], ['touch', 'm/mix two.mp3'], ['touch', 'm/remix mix.mp3'],
                                  ['add', 'm'], ['scan', 'm'], ['query', '*mix -mix'], ['query', '-mix *mix'],
                                  ['query', 'mix *mix'], ['query', 'remix -REMIX'], ['query', '*mix *mix']]}
# the same file copied with its times into a second shared directory: two shared files
W_TWINS = {'cap': 100, 'ops': [['touch', 't1/cd/intro a.mp3'], ['copy', 't1/cd/intro a.mp3', 't2/cd/intro a.mp3'],
                               ['touch', 't2/other b.mp3'], ['add', 't1'], ['add', 't2'], ['scanall'], ['stats'],
                               ['query', 'intro'], ['query', 'mp3'], ['remove', 't1', 'str'], ['stats'], ['query', 'intro'],
                               ['add', 't1'], ['scanall'], ['remove', 't2', 'obj'], ['query', 'intro']]}
WITNESSES = [W_WILDCARD, W_REMOVED, W_VANISHED, W_MOVED, W_SIBLING, W_UNREADABLE, W_SAMETEXT, W_TWINS]


class C07(Property):
    id = 'C07'
    props_module = 'AioslskVerif.Props.C07'
    driver_module = 'AioslskVerif.Driver.C07'
    rule = ('real temp trees of 1..30 files in up to 7 nested folders, names from a pool of words sharing '
            'suffixes/substrings in mixed case with accents and CJK joined by the separators of the property; '
            'histories of 1..8 add/remove/update/scan/scan-all operations (nested shared directories, unknown '
            'paths, stale handles) interleaved with files appearing / changing / vanishing; 1..4-term queries built '
            'from the words present (whole, substring, shared suffix with *, slices spanning punctuation, -exclusions, '
            'absent words, junk terms; in 22 % of the queries the same text again as a term of another kind or twice), max_results in 1..100; 30 % of the general histories with directory entries that cannot be stat\'ed (dangling and self-referencing symbolic links named like the files, appearing and disappearing between scans); ~13 % chains of 3-4 nested shares, ~14 % nested shares beside directories whose names extend the shared name as a string (CD1 / CD10 / CD1 (bonus) / Album [Deluxe], both directions, same level and one level deeper; such names also appear in ~30 % of the general trees); all from VERIF_SEED. A case is non-trivial when its '
            'history has >= 2 share operations and some query returned a non-empty proper subset of the indexed '
            'files; distinct = distinct canonical case')
    assumptions = [
        'alphabet restricted to characters on which str.lower is one character to one character, idempotent, '
        'class-preserving and agrees with re.IGNORECASE (self-checked at import for the whole generator alphabet); '
        'the Lean theorems assume exactly Cls.Lawful',
        're (look-behind, look-ahead, escape), os.walk, os.path.commonpath/relpath, weak references are exercised, '
        'not modelled; the executor runs the scanner inline (no concurrent scans)',
        'file modification times (part of the item key) are not modelled: not observable through query/get_stats',
        'target tree = /repo + fixes/C07-wildcard-union.patch + C07-term-map-follows-index.patch + '
        'C07-moved-items-rebased.patch',
    ]
    modelled = ('SearchQuery.parse, create_term_pattern/matchers_iter (as a backtracking matcher), '
                'SharesManager.query (term-map prefilter, regex stage, cap) up to the visible/locked split, '
                '_add_item_to_term_map/_cleanup_term_map, add/remove/update_shared_directory, scan_directory(_files), '
                'scan, get_stats, innermost-parent selection; not modelled: excluded phrases and locking (C08), '
                'attributes, cache, aliases, replies')

    def _cases(self, seed, tier, widen):
        rng = random.Random(f'C07-{seed}')
        n = (320 if tier == 'quick' else 4000) * widen
        cases = list(WITNESSES) + [_gen_case(rng) for _ in range(n)]
        prng = random.Random(f'C07-pickling-{seed}')
        out = []
        for c in cases:
            out.append(c)
            if prng.random() < 0.3 and len(c['ops']) > 3:
                # a restart somewhere in the history (cache written, new manager, cache read back, settings loaded)
                ops = list(c['ops'])
                ops.insert(prng.randrange(2, len(ops)), ['restart'])
                out[-1] = c = dict(c, ops=ops)
            if prng.random() < 0.3:
                # the same history with the documented process-pool configuration: scan calls and results cross a pickle
                # boundary (same model lines: which executor runs the scanner must not matter)
                out[-1] = dict(c, pickling=True)
        # every witness also in the pickling configuration
        return out + [dict(w, pickling=True) for w in WITNESSES]

    def correspondence(self, seed, tier, model_ok, widen=1):
        res = KResult()
        cases = self._cases(seed, tier, widen)
        for p in sorted((common.CORPUS / 'C07').glob('*.json')) if (common.CORPUS / 'C07').exists() else []:
            import json
            cases.insert(0, json.loads(p.read_text()))
        impl = common.parallel_map(_eval_case, cases, chunksize=4)
        model_out = None
        spans = []
        if model_ok:
            lines: list[str] = []
            for c in cases:
                ls, where = _model_lines(c)
                spans.append((len(lines), len(ls), where))
                lines += ls
            out = common.run_driver(self.driver_file, lines)
            model_out = out
        else:
            res.model_available = False
        for i, c in enumerate(cases):
            res.evaluations += 1
            io = impl[i]
            nshare = sum(1 for op in c['ops'] if op[0] in ('add', 'remove', 'update', 'scan', 'scanall'))
            res.count('share-ops', nshare)
            meta = c.get('meta') or {}
            res.count('scenario:' + meta.get('scenario', 'general'))
            for sh in meta.get('shapes', []):
                res.count('sibling-name:' + sh)
            if meta.get('direction'):
                res.count('sibling-direction:' + meta['direction'])
            for op in c['ops']:
                res.count('op:' + op[0])
                if op[0] == 'query':
                    for t in op[1].split():
                        res.count('term:' + ('wild' if t[0] == '*' else 'excl' if t[0] == '-' else 'incl')
                                  + ('+punct' if any(not ch.isalnum() for ch in t[1:]) else ''))
                    cores = [(t[0] if t[0] in '*-' else '', t.lstrip('*-').lower()) for t in op[1].split()]
                    if any(a[1] and a[1] == b[1] and a[0] != b[0] for a in cores for b in cores):
                        res.count('query:same-text-in-two-kinds')
            exc = bool(io and isinstance(io[0], dict) and 'EXC' in io[0])
            if not exc:
                nontriv = False
                indexed = 0
                for op, o in zip(c['ops'], io):
                    if o is None:
                        continue
                    if 'index' in o:
                        indexed = len(o['index'])
                    if op[0] == 'query':
                        res.count('query-result:' + ('empty' if not o['keys'] else 'all' if len(o['keys']) >= indexed
                                                     else 'capped' if len(o['keys']) == c['cap'] else 'some'))
                        if o['keys'] and len(o['keys']) < indexed:
                            nontriv = True
                if nontriv and nshare >= 2:
                    res.nontrivial_keys.add(common.sha(c))
            if model_out is not None and not exc:
                a, k, where = spans[i]
                out = model_out[a:a + k]
                res.traces_validated += 1
                diff = _compare(c, io, out, where)
                if diff is not None:
                    j, x, y = diff
                    res.disagreements.append(Disagreement(c, x, y, f'op #{j} {c["ops"][j]}'))
            res.violations += _monitor(c, io)
            if len(res.samples) < 3 and 6 < len(c['ops']) < 16 and not exc:
                res.samples.append({'case': c, 'impl': [o if o is None else {k: v for k, v in o.items() if k != 'index'}
                                                        for o in io]})
        return res

    def replay(self, case):
        return _monitor(case, _eval_case(case))

    def known_witnesses(self):
        return []


PROPERTY = C07()
