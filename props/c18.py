"""C18 — search results reach only live requests; removal and timeouts are exact.

Correspondence K_C18 (real SearchManager + real Timer/BackgroundTask + real EventBus under SimLoop vs.
Model/Search.lean: `step` for the registry / timers, `nstep` for the removal report handed from listener to
listener) and the monitor (the property statement evaluated on the implementation trace, independent of the model;
with several listeners per event class: every result / removal reaches every listener exactly once).
"""
from __future__ import annotations

import itertools
import random
from typing import Any

from vlib import common
from vlib.common import KResult, Violation, Disagreement, Property
from translate import search_constants

MAXT = 0xFFFFFFFF
START = 1000.0
ORDER = {'E': 0, 'R': 1, 'S': 2, 'X': 3, 'T': 4, 'A': 5}


# ------------------------------------------------------------------------------------------------
# implementation side
# ------------------------------------------------------------------------------------------------

class _UnknownOp(Exception):
    pass


def _run_impl(case: dict) -> dict:
    import asyncio
    from unittest.mock import AsyncMock, Mock
    from vlib import simloop
    from aioslsk.search.manager import SearchManager
    from aioslsk.settings import Settings, WishlistSettingEntry
    from aioslsk.events import (EventBus, SearchResultEvent, SearchRequestRemovedEvent, SearchRequestSentEvent,
                                MessageReceivedEvent, ConnectionStateChangedEvent, SessionInitializedEvent,
                                SessionDestroyedEvent)
    from aioslsk.session import Session
    from aioslsk.user.model import User
    from aioslsk.protocol.messages import PeerSearchReply, WishlistInterval
    from aioslsk.network.connection import ServerConnection, PeerConnection, ConnectionState
    from aioslsk.utils import ticket_generator

    cfg = case['cfg']
    steps: list[dict] = []
    import logging
    logging.getLogger('aioslsk').setLevel(logging.CRITICAL + 1)

    async def main(loop):
        s = Settings(credentials={'username': 'u', 'password': 'p'})
        s.searches.send.request_timeout = cfg['rt']
        s.searches.send.wishlist_request_timeout = cfg['wt']
        s.searches.send.store_results = bool(cfg['store'])
        s.searches.wishlist = [WishlistSettingEntry(query=f'w{i}', enabled=bool(e)) for i, e in enumerate(cfg['items'])]
        bus = EventBus()
        net = Mock()
        net.send_peer_messages = AsyncMock()

        # send_server_messages: returns at once (as the AsyncMock did) unless the schedule has closed the gate
        # (`gate 1`); then every send suspends until `sendok <ticket>` / `sendfail <ticket>`, or until its owner (the
        # caller of search*, the wishlist task) is cancelled.  sends: ticket -> the suspended send
        gate_on = [False]
        sends: dict = {}
        injected: list = []       # exception objects injected by `sendfail` (their propagation is not an error)
        call_tasks: list = []     # search* calls that run as tasks of the application (gated)
        call_of: dict = {}        # ticket -> the application task whose search* call drew it (while gated)

        def _is_wl(task):
            co = task.get_coro() if task is not None else None
            return getattr(getattr(co, 'cr_code', None), 'co_qualname', '') == 'BackgroundTask.runner'

        async def send_server_messages(*msgs, **kw):
            if not gate_on[0]:
                return None
            tk = getattr(msgs[0], 'ticket', None) if msgs else None
            ent = {'fut': loop.create_future(), 'task': asyncio.current_task()}
            ent['wl'] = _is_wl(ent['task'])
            sends[tk] = ent
            if not ent['wl']:
                call_of[tk] = ent['task']
            try:
                await ent['fut']
            finally:
                if sends.get(tk) is ent:
                    del sends[tk]
        net.send_server_messages = send_server_messages
        m = SearchManager(s, bus, Mock(), Mock(), net)
        if cfg['initial'] != 1:
            m._ticket_generator = ticket_generator(initial=cfg['initial'])
        # the draws are counted where they happen (announcements may come in another order than the draws once a set-up
        # can be suspended): open_draws[ticket] = numbers of the draws of that ticket not yet matched to an announcement
        draw_count = [0]
        open_draws: dict = {}
        drawno: dict = {}         # harness request id -> draw number of its ticket

        def counting(gen):
            for tk_ in gen:
                draw_count[0] += 1
                open_draws.setdefault(tk_, []).append(draw_count[0])
                yield tk_
        # the generator object in use is wrapped; should the code replace its generator (round 6: a "reset" at a session
        # change), the new one is wrapped as soon as the op is over, so that draws keep being counted where they happen
        wrapped = [None]

        def wrap_generator():
            if m._ticket_generator is wrapped[0]:
                return False
            wrapped[0] = m._ticket_generator = counting(m._ticket_generator)
            return True
        wrap_generator()
        session_no = [0]
        sess_told = [0]
        server_conn = Mock(spec=ServerConnection)
        peer_conn = Mock(spec=PeerConnection)
        peer_conn.disconnect = AsyncMock()

        now = lambda: int(loop.time() - START) if (loop.time() - START) == int(loop.time() - START) else loop.time() - START
        events: list = []
        errors: list = []
        objs: list = []           # strong refs; index = harness request id
        tracker: dict = {}        # ticket -> rid, as told by the events (+ successful remove_request)
        flags = {'clobber': False}
        timer_tasks: list = []

        def rid_of(req):
            for i, o in enumerate(objs):
                if o is req:
                    return i
            objs.append(req)
            return len(objs) - 1

        # ---- several listeners per event class (cfg['lis'] = {'S': [...], 'R': [...], 'X': [...]}): the recorders
        # below are the FIRST listener of their class (they see the moment of the emission); the extra listeners
        # are registered after them, in the given order. Every listener keeps a ledger of what it was told.
        lis = cfg.get('lis') or {}
        cur = [0]                 # index of the op being executed (len(case['ops']) = end of case)
        lrec = {'prim': [], 'enter': [], 'exit': []}
        robjs: list = []          # SearchResult objects (strong refs); index = result id
        by_ticket: dict = {}      # ticket -> rid of the request last announced with it (never forgotten)
        emissions: list = []      # SearchRequestRemovedEvent emissions: [rid, ticket, task that runs emit()]

        def res_id(res):
            for i, o in enumerate(robjs):
                if o is res:
                    return i
            robjs.append(res)
            return len(robjs) - 1

        def ev_key(cls, e):
            return [rid_of(e.query), res_id(e.result) if cls == 'R' else 0]

        def on_sent(e):
            r = rid_of(e.query)
            if r not in drawno:
                q_ = open_draws.get(e.query.ticket)
                drawno[r] = q_.pop(0) if q_ else 0
            if e.query.ticket in tracker:
                flags['clobber'] = True
            tracker[e.query.ticket] = r
            by_ticket[e.query.ticket] = r
            events.append([now(), 'S', e.query.ticket, r, e.query.search_type.name, None])
            if lis:
                lrec['prim'].append(['S', now()] + ev_key('S', e) + [cur[0]])

        def on_removed(e):
            r = rid_of(e.query)
            if tracker.get(e.query.ticket) == r:
                del tracker[e.query.ticket]
            events.append([now(), 'X', e.query.ticket, r, None, None])
            if lis:
                lrec['prim'].append(['X', now()] + ev_key('X', e) + [cur[0]])
                try:
                    emissions.append([r, e.query.ticket, asyncio.current_task()])
                except RuntimeError:
                    pass

        def on_result(e):
            events.append([now(), 'R', e.query.ticket, rid_of(e.query), None, e.result.ticket])
            if lis:
                lrec['prim'].append(['R', now()] + ev_key('R', e) + [cur[0]])

        bus.register(SearchRequestSentEvent, on_sent)
        bus.register(SearchRequestRemovedEvent, on_removed)
        bus.register(SearchResultEvent, on_result)
        keep = [on_sent, on_removed, on_result]   # the bus holds listeners weakly

        # optional second SearchRequestSentEvent listener (registered after the recorder, so it runs after it):
        #   cfg['sent'] == 'slow'   : an async listener that suspends until the schedule releases it (`srelease`)
        #   cfg['sent'] == 'remove' : a plain listener that removes the request it is told about (for the sent
        #                             events whose ordinal is in cfg['sent_remove'])
        sgates: list = []         # futures the slow listener is (or was) waiting on
        sent_seen = [0]

        async def slow_sent(e):
            g = loop.create_future()
            sgates.append(g)
            await g

        def removing_sent(e):
            k = sent_seen[0]
            sent_seen[0] += 1
            if k in cfg.get('sent_remove', []):
                m.remove_request(e.query)
                r = rid_of(e.query)
                if tracker.get(e.query.ticket) == r:
                    del tracker[e.query.ticket]
                events.append([now(), 'U', e.query.ticket, r, None, None])      # removed by the user (listener)

        if cfg.get('sent') == 'slow':
            bus.register(SearchRequestSentEvent, slow_sent)
            keep.append(slow_sent)
        elif cfg.get('sent') == 'remove':
            bus.register(SearchRequestSentEvent, removing_sent)
            keep.append(removing_sent)

        def release_sent():
            for g in sgates:
                if not g.done():
                    g.set_result(None)

        lgates: list = []         # [future, cls, idx, rid, ticket] of listeners waiting on a gate

        def make_listener(cls, idx, spec):
            kind = spec[0]
            seen = [0]
            if kind not in ('plain', 'raise', 'remove', 'async', 'yield', 'nap', 'gate', 'research'):
                raise _UnknownOp(f'unknown listener {spec}')

            def enter(e):
                k = ev_key(cls, e)
                lrec['enter'].append([cls, idx, now()] + k + [cur[0]])
                return k

            def leave(k, how):
                lrec['exit'].append([cls, idx, now()] + k + [how, cur[0]])

            if kind == 'plain':
                def f(e):
                    leave(enter(e), 'ok')
                return f
            if kind == 'raise':
                def f(e):
                    leave(enter(e), 'raised')
                    raise RuntimeError('listener failed')
                return f
            if kind == 'remove':
                # a listener that removes the request it is told about (on the spec[1]-th event it sees)
                def f(e):
                    k = enter(e)
                    n = seen[0]
                    seen[0] += 1
                    if n == spec[1]:
                        try:
                            m.remove_request(e.query)
                        except KeyError:
                            pass
                        else:
                            if tracker.get(e.query.ticket) == k[0]:
                                del tracker[e.query.ticket]
                            events.append([now(), 'U', e.query.ticket, k[0], None, None])
                    leave(k, 'ok')
                return f

            async def g(e):
                k = enter(e)
                try:
                    if kind == 'yield':
                        for _ in range(spec[1]):
                            await asyncio.sleep(0)
                    elif kind == 'nap':
                        await asyncio.sleep(spec[1])
                    elif kind == 'gate':
                        fut = loop.create_future()
                        lgates.append([fut, cls, idx, k[0], e.query.ticket])
                        await fut
                    elif kind == 'research':
                        n = seen[0]
                        seen[0] += 1
                        if n < spec[1]:
                            await m.search('again')
                except asyncio.CancelledError:
                    leave(k, 'cancelled')
                    raise
                leave(k, 'ok')
            return g

        ev_class = {'S': SearchRequestSentEvent, 'R': SearchResultEvent, 'X': SearchRequestRemovedEvent}
        for cls in ('S', 'R', 'X'):
            for idx, spec in enumerate(lis.get(cls, [])):
                fn = make_listener(cls, idx, spec)
                bus.register(ev_class[cls], fn)
                keep.append(fn)

        def release_listeners(ticket=None):
            n = 0
            for g in lgates:
                if not g[0].done() and (ticket is None or (g[1] == 'X' and g[4] == ticket)):
                    g[0].set_result(None)
                    n += 1
            return n

        def task_done(t):
            if t.cancelled():
                return
            exc = t.exception()
            if exc is not None and any(exc is x for x in injected):
                return            # the injected send failure ends the wishlist task (BackgroundTask.runner does not catch)
            if exc is not None:
                arg = exc.args[0] if isinstance(exc, KeyError) and exc.args and isinstance(exc.args[0], int) else None
                errors.append([now(), type(exc).__name__, arg])

        def factory(lp, coro, **kw):
            t = asyncio.Task(coro, loop=lp, **kw)
            qn = getattr(getattr(coro, 'cr_code', None), 'co_qualname', '')
            if qn == 'Timer.runner':
                timer_tasks.append(t)
            if qn in ('Timer.runner', 'BackgroundTask.runner'):
                t.add_done_callback(task_done)
            return t

        loop.set_task_factory(factory)

        # gated replies: the reply's connection has a disconnect() that suspends until the schedule releases it
        gates: list = []          # [future, entered?]
        handler_tasks: list = []

        def gated_connection():
            gate = [loop.create_future(), False]
            gates.append(gate)
            conn = Mock(spec=PeerConnection)

            async def disconnect(*a, **kw):
                gate[1] = True
                await gate[0]
            conn.disconnect = disconnect
            return conn

        def release_gates():
            for g in gates:
                if not g[0].done():
                    g[0].set_result(None)

        for opi, op in enumerate(case['ops']):
            cur[0] = opi
            del events[:]
            del errors[:]
            flags['clobber'] = False
            it0 = loop.iterations
            st: dict = {'t0': now(), 'before': sorted(m.requests.keys()), 'ret': None,
                        'insetup_before': sorted(k_ for k_ in sends if k_ is not None)}
            try:
                k = op[0]
                if k == 'search' and gate_on[0]:
                    # the application calls search*(): the call runs (as `await m.search(..)` inside an application
                    # coroutine would) up to its first suspension — the gated send — and stays there
                    co = {'net': lambda: m.search('q'), 'room': lambda: m.search_room('room', 'q'),
                          'user': lambda: m.search_user('user', 'q')}[op[1]]()
                    ct = asyncio.Task(co, loop=loop, eager_start=True)
                    ct.add_done_callback(lambda t: t.cancelled() or t.exception())     # (outcome retrieved; not judged)
                    call_tasks.append(ct)
                elif k == 'search':
                    if op[1] == 'net':
                        await m.search('q')
                    elif op[1] == 'room':
                        await m.search_room('room', 'q')
                    else:
                        await m.search_user('user', 'q')
                elif k == 'gate':
                    gate_on[0] = bool(op[1])
                elif k in ('sendok', 'sendfail'):
                    ent = sends.get(op[1])
                    if ent is None or ent['fut'].done():
                        st['ret'] = 'nosetup'
                    elif k == 'sendok':
                        ent['fut'].set_result(None)
                    else:
                        from aioslsk.exceptions import ConnectionWriteError
                        exc = ConnectionWriteError('injected: the server connection broke during the send')
                        injected.append(exc)
                        ent['fut'].set_exception(exc)
                elif k == 'ccancel':
                    # the application cancels its task that is inside search*() for that ticket — wherever the call is
                    # suspended (in the code as it is: only in the send)
                    ct = call_of.get(op[1])
                    if ct is None or ct.done():
                        st['ret'] = 'nosetup'
                    else:
                        ct.cancel()
                elif k == 'tick':
                    # exactly ONE iteration of the loop at the present instant
                    if len(op) > 1:
                        raise _UnknownOp(f'unknown op {op}')
                    await asyncio.sleep(0)
                elif k == 'wlmsg':
                    await bus.emit(MessageReceivedEvent(message=WishlistInterval.Response(op[1]), connection=server_conn))
                elif k == 'wlclose':
                    await bus.emit(ConnectionStateChangedEvent(connection=server_conn, state=ConnectionState.CLOSING))
                elif k == 'sessdown':
                    # the server session is lost (client.py:379-385 emits this when the server connection is CLOSED)
                    if len(op) > 1:
                        raise _UnknownOp(f'unknown op {op}')
                    await bus.emit(SessionDestroyedEvent(session=Session(
                        user=User('u'), ip_address='1.2.3.4', greeting='', client_version=157, minor_version=100)))
                elif k == 'sessup':
                    # logged in (again): client.py:203-216
                    if len(op) > 1:
                        raise _UnknownOp(f'unknown op {op}')
                    session_no[0] += 1
                    await bus.emit(SessionInitializedEvent(session=Session(
                        user=User('u'), ip_address='1.2.3.4', greeting=f'session {session_no[0]}', client_version=157,
                        minor_version=100), raw_message=Mock()))
                elif k == 'remove':
                    try:
                        m.remove_request(op[1])
                        tracker.pop(op[1], None)
                        st['ret'] = 'removed'
                    except KeyError:
                        st['ret'] = 'KeyError'
                elif k == 'removeobj':
                    # remove_request(<the SearchRequest object last announced with that ticket>) — the other form
                    # of the public call; an unknown ticket is passed as the int
                    arg = objs[by_ticket[op[1]]] if op[1] in by_ticket else op[1]
                    try:
                        m.remove_request(arg)
                        tracker.pop(op[1], None)
                        st['ret'] = 'removed'
                    except KeyError:
                        st['ret'] = 'KeyError'
                elif k == 'stop':
                    # SearchManager.stop(): the cancelled tasks finish when the loop next runs
                    st['stopped'] = len(await m.stop())
                elif k == 'lrelease':
                    release_listeners()
                elif k == 'resume':
                    # the suspended SearchRequestRemovedEvent listener holding the report for that ticket returns;
                    # the loop then runs (at the present instant) until nothing is ready
                    if not release_listeners(op[1]):
                        st['ret'] = 'noemit'
                    await simloop.settle()
                elif k == 'reply':
                    msg = PeerSearchReply.Request(username='peer', ticket=op[1], results=[], has_slots_free=True,
                                                  avg_speed=0, queue_size=0)
                    await bus.emit(MessageReceivedEvent(message=msg, connection=peer_conn))
                elif k == 'greply':
                    # the handler runs as its own task (as under the peer connection's reader loop) and suspends in
                    # connection.disconnect() until a later `release`
                    msg = PeerSearchReply.Request(username='peer', ticket=op[1], results=[], has_slots_free=True,
                                                  avg_speed=0, queue_size=0)
                    ht = asyncio.ensure_future(bus.emit(MessageReceivedEvent(message=msg, connection=gated_connection())))
                    ht.add_done_callback(task_done)
                    handler_tasks.append(ht)
                elif k == 'release':
                    release_gates()
                elif k == 'gsearch':
                    # the search call runs as a task of the application; with the slow sent-listener it stays
                    # suspended inside `await emit(SearchRequestSentEvent)` until `srelease`
                    co = {'net': lambda: m.search('q'), 'room': lambda: m.search_room('room', 'q'),
                          'user': lambda: m.search_user('user', 'q')}[op[1]]()
                    ht = asyncio.ensure_future(co)
                    ht.add_done_callback(task_done)
                    handler_tasks.append(ht)
                elif k == 'srelease':
                    release_sent()
                elif k in ('tcancel', 'tresched'):
                    r = m.requests.get(op[1])
                    if r is None:
                        st['ret'] = 'noreq'
                    elif r.timer is None:
                        st['ret'] = 'notimer'
                    elif k == 'tcancel':
                        st['ret'] = 'armed' if r.timer._task is not None else 'idle'
                        r.timer.cancel()
                    else:
                        st['ret'] = 'armed' if r.timer._task is not None else 'idle'
                        r.timer.reschedule(op[2])
                elif k == 'jump':
                    # the clock advances while nothing runs; the wake-ups that are due now are queued (what the loop does
                    # at the start of its next iteration) — so whatever the schedule does next is queued BEHIND them: a
                    # `tick` then is one phase of every timer (due -> woken -> callback), see Search.wakeTask
                    loop._vt += op[1]
                    import heapq
                    while loop._scheduled and loop._scheduled[0]._when <= loop._vt:
                        h = heapq.heappop(loop._scheduled)
                        h._scheduled = False
                        if not h._cancelled:
                            loop._ready.append(h)
                        else:
                            loop._timer_cancelled_count = max(0, loop._timer_cancelled_count - 1)
                elif k == 'sleep':
                    await simloop.advance(op[1])
                else:
                    raise _UnknownOp(f'unknown op {op}')
            except TimeoutError:        # wall-clock guard of vlib.simloop.run
                raise
            except _UnknownOp:
                raise
            except BaseException as e:  # noqa — the real code raised into its caller: an observation
                st['raised'] = type(e).__name__
            st['t1'] = now()
            st['iters'] = loop.iterations - it0      # > 0: the op let the loop run (a call that suspended)
            st['events'] = [list(x) for x in events]
            st['errors'] = [list(x) for x in errors]
            st['clobber'] = flags['clobber']
            st['after'] = sorted(m.requests.keys())
            st['tracked'] = sorted(tracker.keys())
            st['armed'] = sorted(tk for tk, r in m.requests.items() if r.timer is not None and r.timer._task is not None)
            st['res'] = [[tk, len(r.results)] for tk, r in sorted(m.requests.items())]
            st['pend'] = sum(1 for t in timer_tasks if not t.done())
            st['susp'] = sum(1 for g in gates if g[1] and not g[0].done())
            st['susp_sent'] = sum(1 for g in sgates if not g.done())
            st['stored'] = [[i, len(o.results)] for i, o in enumerate(objs)]
            st['blocked'] = sorted(k_ for k_, e_ in sends.items() if k_ is not None and not e_['fut'].done())
            st['insetup'] = sorted(k_ for k_ in sends if k_ is not None)
            st['timerless'] = sorted(tk for tk, r in m.requests.items() if r.timer is None)
            if k in ('sessup', 'sessdown') and not st.get('raised'):
                sess_told[0] = int(k == 'sessup')
            # (`_session` is a private attribute: if a refactoring stores the session elsewhere, nothing is compared)
            st['sess'] = int(m._session is not None) if hasattr(m, '_session') else sess_told[0]
            st['regen'] = wrap_generator()      # the code replaced its ticket generator during this op
            if lis:
                # removal reports still running: [ticket, listeners entered so far]
                st['rep'] = sorted([tk, sum(1 for x in lrec['enter'] if x[0] == 'X' and x[3] == r)]
                                   for r, tk, task in emissions if task is not None and not task.done())
                st['told'] = [[x[2], x[1], objs[x[3]].ticket] for x in lrec['enter'] if x[0] == 'X' and x[5] == opi]
                st['aborted'] = [[x[2], x[1], objs[x[3]].ticket] for x in lrec['exit']
                                 if x[0] == 'X' and x[6] == opi and x[5] == 'cancelled']
            steps.append(st)
        # let pending done-callbacks run (same instant) so that every task error is seen
        del errors[:]
        del events[:]
        cur[0] = len(case['ops'])
        release_gates()
        for _ in range(24):       # a released wishlist round goes on to its next item, which is gated again;
            release_sent()        # a released listener hands the event on to the next one, which may wait too
            release_listeners()
            await simloop.settle()
            if all(g.done() for g in sgates) and all(g[0].done() for g in lgates):
                break
        result = {'late_errors': [list(x) for x in errors], 'late_events': [list(x) for x in events],
                  'handlers_pending': sum(1 for t in handler_tasks if not t.done()), 'keep': len(keep),
                  'lis': {k: [list(x) for x in v] for k, v in lrec.items()} if lis else None,
                  'listeners_busy': len(lrec['enter']) - len(lrec['exit']),
                  'tickets': {str(i): o.ticket for i, o in enumerate(objs)},
                  'drawno': {str(k_): v_ for k_, v_ in drawno.items()}}
        # not part of the case any more: whatever is still suspended in a gated send is cancelled HERE, while the
        # harness still holds it (a suspended task that is only reachable from this frame would be collected when
        # the frame goes — "Task was destroyed but it is pending" would then be reported at a random moment)
        nexc = len(loop.exceptions)
        gate_on[0] = False
        for _ in range(4):
            for ent in list(sends.values()):
                if ent['task'] is not None and not ent['task'].done():
                    ent['task'].cancel()
            await m.stop()
            for t in call_tasks:
                if not t.done():
                    t.cancel()
            await simloop.settle()
            if not sends and all(t.done() for t in call_tasks):
                break
        del loop.exceptions[nexc:]
        return result

    try:
        from vlib import simloop as _sl
        res, loop = _sl.run(main, start=START, wall_timeout=30.0)
        tail = {'late_errors': res['late_errors'], 'loop_exceptions': loop.exceptions,
                'late_events': res['late_events'], 'handlers_pending': res['handlers_pending'], 'lis': res['lis'],
                'tickets': res['tickets'], 'listeners_busy': res['listeners_busy'], 'drawno': res['drawno']}
    except Exception as e:  # harness-level failure of this case (e.g. the loop does not quiesce)
        tail = {'late_errors': [], 'loop_exceptions': [], 'harness': f'{type(e).__name__}: {e}'}
    return {'steps': steps, 'tail': tail}


def _line(st: dict) -> str:
    evs = [(e[0], ORDER[e[1]], e[2], f'{e[0]}:{e[1]}:{e[2]}') for e in st['events']]
    for t, typ, arg in st['errors']:
        if typ == 'KeyError' and arg is not None:
            evs.append((t, ORDER['E'], arg, f'{t}:E:{arg}'))
        else:
            evs.append((t, -1, 0, f'{t}:EXC:{typ}'))
    # the removal report as seen by the extra SearchRequestRemovedEvent listeners (`notify` family): listener i is
    # told (T<i>); a listener got CancelledError after i listeners had been told (A<i>)
    for t, idx, tk in st.get('told', []):
        evs.append((t, ORDER['T'], tk, f'{t}:T{idx}:{tk}'))
    for t, idx, tk in st.get('aborted', []):
        evs.append((t, ORDER['A'], tk, f'{t}:A{idx + 1}:{tk}'))
    toks = [x[3] for x in sorted(evs)]
    if st.get('raised'):
        toks.append('RAISED:' + st['raised'])
    if st['ret'] in ('KeyError', 'noreq', 'notimer', 'noemit', 'nosetup'):
        toks.append(st['ret'])
    if st['clobber']:
        toks.append('clobber')
    rep = f" rep={','.join(f'{a}:{b}' for a, b in st['rep'])}" if 'rep' in st else ''
    return (f"{' '.join(toks)} | live={','.join(map(str, st['after']))} armed={','.join(map(str, st['armed']))} "
            f"res={','.join(f'{a}:{b}' for a, b in st['res'])} pend={st['pend']}{rep} "
            f"setup={','.join(map(str, st.get('blocked', [])))} sess={st.get('sess', 0)} now={st['t1']}")


def _impl_lines(tr: dict) -> list[str]:
    out = ['ok'] + [_line(st) for st in tr['steps']]
    t = tr['tail']
    if t.get('harness'):
        out.append('HARNESS ' + t['harness'])
    if t['late_errors'] or t['loop_exceptions']:
        out.append(f"LOOP-HANDLER {t['late_errors']} {[(x.get('type'), x.get('message')) for x in t['loop_exceptions']]}")
    return out


def _model_lines(case: dict) -> list[str]:
    c = case['cfg']
    out = [f"new {c['rt']} {c['wt']} {c['store']} {c['initial']} {sum(1 for e in c['items'] if e)}"
           + (f" {len(c['lis'].get('X', []))}" if c.get('lis') else '')]
    for op in case['ops']:
        out.append(' '.join(str(x) for x in (['remove'] + op[1:] if op[0] == 'removeobj' else op)))
    return out


# ------------------------------------------------------------------------------------------------
# monitor: the property statement on the implementation trace
# ------------------------------------------------------------------------------------------------

def _monitor(case: dict, tr: dict) -> list[Violation]:
    cfg = case['cfg']
    vs: list[Violation] = []
    period = MAXT + 1 - cfg['initial']        # draws after which the generator repeats a ticket

    def bad(sig, what, **kw):
        vs.append(Violation(sig, what, case, **kw))

    reqs: dict[int, dict] = {}      # rid -> {ticket, live, deadline, draw, by_user, removed_events}
    live: dict[int, int] = {}       # ticket -> rid  (registered, as far as events and API calls say)
    wl_interval = None
    draws = 0
    drawno = tr['tail'].get('drawno') or {}

    def dn(rid, fallback):
        # number of the draw that handed out the ticket of request `rid` (counted at the generator; the order of the
        # announcements is only a fallback)
        v = drawno.get(str(rid))
        return v if v else fallback
    gated: list = []                # replies whose handler may be suspended in disconnect(): {tk, rid, ok}
    setup_seen: set = set()         # tickets that were seen suspended in the send of their set-up
    setup_removed: set = set()      # … and that remove_request() accepted while they were (the user removed them)
    setup_touched: set = set()      # … whose Timer the user cancelled / re-armed through SearchManager.requests while they
                                    # were (an implementation that registers early lets him): not judged any further

    def pick_reply(tk, rid):
        # the not yet answered reply (handler run as a task) that a result event answers: first one sent while this
        # very request was registered, else one sent for the ticket when no such request existed (yet)
        c = [x for x in gated if x['tk'] == tk and not x['answered']]
        return next((x for x in c if x['rid'] == rid), c[0] if c else None)
    if tr['tail'].get('harness'):
        bad('C18-impl-error', 'the case could not be run to the end: ' + tr['tail']['harness'])
        return vs
    for i, (op, st) in enumerate(zip(case['ops'], tr['steps'])):
        k = op[0]
        if k == 'removeobj':          # remove_request(<request object>): the same call, the same obligations
            k, op = 'remove', ['remove'] + op[1:]
        # ops in which the loop runs (`resume` = release one listener + settle); any other op only if the call suspended
        ran = k in ('sleep', 'resume', 'tick') or st.get('iters', 0) > 0
        settled = k in ('sleep', 'resume')       # … until nothing is ready (`tick`: a given number of iterations)
        setup_before = set(st.get('insetup_before', []))
        setup_seen |= setup_before | set(st.get('insetup', []))
        # … plus the tickets whose send is over but which have not been announced (yet): between the registration and the
        # announcement a reply may find the request or not — judged when that has ended (registry check, when settled)
        setup_before |= {x for x in setup_seen if x not in live and x not in setup_removed and
                         not any(q['ticket'] == x for q in reqs.values())}
        where = f'op #{i} {case["ops"][i]}'
        if st.get('raised'):
            bad('C18-op-raised-' + st['raised'],
                f'{where}: {st["raised"]} escaped from the library into its caller '
                '(for a WishlistInterval message that is the server reader loop; see C02)', observed=st['raised'])
            return vs
        if st['clobber']:
            # a ticket was handed out while a request with that ticket is registered: a violation when the two
            # draws are fewer than one generator period apart, otherwise the end of the property's scope
            tmp = dict(live)
            draw_of = {rid: r['draw'] for rid, r in reqs.items()}
            d = draws
            for t, kind, tk, rid, stype, rtk in st['events']:
                if kind == 'S':
                    d += 1
                    dd = dn(rid, d)
                    if tk in tmp and dd - draw_of.get(tmp[tk], dd) < period:
                        bad('C18-ticket-reused', f'{where}: ticket {tk} given to a new request while request '
                            f'#{tmp[tk]} is still registered ({dd - draw_of.get(tmp[tk], dd)} draws apart)', observed=tk)
                        break
                    tmp[tk] = rid
                    draw_of[rid] = dd
                elif kind == 'X' and tmp.get(tk) == rid:
                    del tmp[tk]
            return vs
        # errors inside library tasks (timer tasks / wishlist task): "no later error"
        for t, typ, arg in st['errors']:
            if typ == 'KeyError' and arg in setup_touched:
                continue
            r = next((q for q in reqs.values() if q['ticket'] == arg), None)
            if typ == 'KeyError' and ((r is not None and r['by_user']) or (r is None and arg in setup_removed)):
                bad('C18-timer-error-after-remove',
                    f'{where}: KeyError({arg}) in the timer task of a request the user removed '
                    '(its Timer was left armed by remove_request, or was started after the removal)', observed=[t, typ, arg], required='no error after removal')
            elif typ == 'KeyError' and r is not None and r['removed_events'] and not r['live']:
                bad('C18-timer-fired-twice',
                    f'{where}: KeyError({arg}) in a timer task: the callback ran for request {arg} although its removal had '
                    'already been reported — by a timer that had been cancelled or re-armed (superseded), or the '
                    'callback ran twice', observed=[t, typ, arg], required='one removal, no later error')
            else:
                bad('C18-task-error', f'{where}: {typ}({arg}) inside a library task', observed=[t, typ, arg])
        if k == 'wlmsg':
            wl_interval = op[1]
        # a timer armed by an earlier call starts counting when the loop next runs (its task's first step)
        if ran:
            for r in reqs.values():
                if r['live'] and r.get('arm') is not None:
                    r.update(deadline=st['t0'] + r['arm'], arm=None)      # ('earliest' keeps the time of the call + T)
        # ---- events
        n_results = 0
        for t, kind, tk, rid, stype, rtk in st['events']:
            if tk in setup_touched and rid not in reqs:
                draws += 1 if kind == 'S' else 0
                continue
            if kind == 'S':
                draws += 1
                if not (1 <= tk <= MAXT):
                    bad('C18-ticket-range', f'{where}: ticket {tk} outside 1..2^32-1', observed=tk)
                if tk in live:
                    old = reqs[live[tk]]
                    if dn(rid, draws) - old['draw'] < period:
                        bad('C18-ticket-reused', f'{where}: ticket {tk} given to a new request while request '
                            f'#{live[tk]} is still registered ({dn(rid, draws) - old["draw"]} draws apart)', observed=tk)
                    return vs          # >= period draws apart: outside the property's quantifier
                if stype == 'WISHLIST':
                    T = cfg['wt'] if cfg['wt'] >= 0 else (wl_interval if wl_interval is not None else None)
                    T = T if T else None
                else:
                    T = cfg['rt'] if cfg['rt'] > 0 else None
                # `earliest`: T after the timer was armed; `deadline`: T after the loop first ran with the timer armed
                # (a Timer whose countdown starts with the task's first step — as in the code — fires then; one that
                # counts from the call itself fires at `earliest`; anything in between is "at the timeout" when the loop
                # was busy in between)
                reqs[rid] = {'ticket': tk, 'live': True, 'deadline': None, 'arm': T, 'draw': dn(rid, draws),
                             'earliest': (t + T) if T is not None else None,
                             'by_user': False, 'removed_events': 0, 'created': t,
                             'why': f'created at t={t} with timeout {T}'}
                if settled and T is not None:   # created by a wishlist round / a search task while the loop runs
                    reqs[rid].update(deadline=t + T, arm=None)      # (`tick`: its timer starts in the next iteration)
                if tk in setup_removed:
                    # announced although remove_request() accepted its ticket while it was being set up: whatever
                    # else happens for it is judged as for any request the user removed
                    reqs[rid].update(live=False, by_user=True)
                    continue
                live[tk] = rid
            elif kind == 'U':
                # remove_request called (successfully) by the sent-listener for the request it was told about
                if live.get(tk) == rid:
                    del live[tk]
                if rid in reqs:
                    reqs[rid].update(live=False, by_user=True)
            elif kind == 'X':
                r = reqs.get(rid)
                if r is None and tk in setup_touched:
                    continue
                if r is None:
                    bad('C18-removed-unknown', f'{where}: removal reported for a request never announced', observed=tk)
                    continue
                r['removed_events'] += 1
                if r['by_user']:
                    bad('C18-event-after-remove', f'{where}: SearchRequestRemovedEvent for ticket {tk} after the user '
                        'removed the request', observed=[t, tk])
                elif r['removed_events'] > 1 or not r['live']:
                    bad('C18-removed-twice', f'{where}: removal of ticket {tk} reported more than once', observed=[t, tk])
                elif r['deadline'] is None and r.get('arm') is not None:
                    bad('C18-removed-early', f'{where}: request {tk} removed before the loop could have started its '
                        f'timer ({r["why"]})', observed=[t, tk])
                elif r['deadline'] is None and r['why'].startswith('created'):
                    bad('C18-removed-without-timeout', f'{where}: request {tk} was removed by a timer although no '
                        f'timeout is configured for it ({r["why"]})', observed=[t, tk])
                elif r['deadline'] is None:
                    bad('C18-cancelled-timer-fired', f'{where}: request {tk} removed by a timer although it has no '
                        f'armed timeout ({r["why"]})', observed=[t, tk])
                elif t < min(r['deadline'], r.get('earliest') if r.get('earliest') is not None else r['deadline']):
                    bad('C18-removed-early', f'{where}: request {tk} removed at t={t}, before its timeout '
                        f't={min(r["deadline"], r.get("earliest") or r["deadline"])} ({r["why"]})', observed=t,
                        required=r['deadline'])
                elif ran and t > max(r['deadline'], st['t0']):
                    bad('C18-removed-late', f'{where}: request {tk} removed at t={t}, timeout was t={r["deadline"]}',
                        observed=t, required=max(r['deadline'], st['t0']))
                if r['live']:
                    r['live'] = False
                    if live.get(tk) == rid:
                        del live[tk]
            elif kind == 'R' and k != 'reply':
                # a result reported while the loop runs: it must answer a gated reply with this ticket, and the
                # request must be registered at the moment of the event (events of one step are in order)
                r = reqs.get(rid)
                g = pick_reply(tk, rid)
                if g is None:
                    bad('C18-result-unsolicited', f'{where}: SearchResultEvent without a reply', observed=[t, tk])
                    continue
                g['answered'] = True
                if rtk != tk:
                    bad('C18-result-wrong-ticket', f'{where}: result with ticket {rtk} reported for request {tk}',
                        observed=[tk, rtk], required=tk)
                elif r is not None and r['by_user']:
                    bad('C18-result-after-remove', f'{where}: SearchResultEvent for ticket {tk} at t={t}, after the '
                        'user removed the request (the reply handler was suspended in connection.disconnect() when '
                        'the request was removed)', observed=[t, tk, {'stored': st['stored']}],
                        required='no result event after remove_request')
                elif r is None or not r['live']:
                    bad('C18-result-after-timeout', f'{where}: SearchResultEvent for ticket {tk} at t={t}, after its '
                        'SearchRequestRemovedEvent (the reply handler was suspended in connection.disconnect() when '
                        'the timeout expired)', observed=[t, tk, {'stored': st['stored']}],
                        required='no result event after the removal was reported')
            elif kind == 'R':
                n_results += 1
                r = reqs.get(rid)
                if op[1] in setup_before and rtk == op[1] and tk == op[1] and r is None:
                    continue      # a request in set-up (registered before announced, or not): judged when that ends
                if rtk != op[1] or tk != op[1]:
                    bad('C18-result-wrong-ticket', f'{where}: result with ticket {rtk} reported for request {tk}',
                        observed=[tk, rtk], required=op[1])
                elif r is None or not r['live'] or op[1] not in st['before']:
                    bad('C18-result-for-dead-request', f'{where}: result reported for ticket {tk} which is not '
                        'registered', observed=[t, tk])
        if k == 'reply' and op[1] not in setup_before:
            want = 1 if op[1] in st['before'] else 0
            if n_results != want and not any(v.signature.startswith('C18-result') for v in vs):
                bad('C18-result-missing' if want else 'C18-result-for-dead-request',
                    f'{where}: {n_results} SearchResultEvent(s), ticket registered: {bool(want)}',
                    observed=n_results, required=want)
        # ---- API calls of this op
        if k == 'greply':
            gated.append({'tk': op[1], 'rid': live.get(op[1]), 'answered': False, 'op': i})
        if k == 'remove' and st['ret'] == 'removed':
            rid = live.pop(op[1], None)
            if rid is not None:       # (accepting an unknown ticket silently is not against the property)
                reqs[rid].update(live=False, by_user=True)
            elif op[1] in setup_before:
                setup_removed.add(op[1])
        elif k == 'remove' and st['ret'] == 'KeyError' and op[1] in live and not (
                reqs[live[op[1]]]['deadline'] is not None and reqs[live[op[1]]]['deadline'] <= st['t1']):
            bad('C18-registry-mismatch', f'{where}: remove_request raised KeyError for a registered ticket')
        elif k == 'stop':
            # stop() cancels the wishlist task and the Timer of every registered request (they stay registered)
            for r in reqs.values():
                if r['live'] and r['ticket'] in st['before']:
                    r.update(deadline=None, arm=None, why='timer cancelled by stop()')
        elif k in ('tcancel', 'tresched') and st['ret'] in ('armed', 'idle'):
            if op[1] not in live and op[1] in setup_before:
                setup_touched.add(op[1])
            rid = live.get(op[1])
            if rid is not None:
                if k == 'tcancel':
                    reqs[rid].update(deadline=None, arm=None, why='timer cancelled by the user')
                else:
                    reqs[rid].update(deadline=None, arm=op[2], earliest=st['t1'] + op[2],
                                     why=f're-armed at t={st["t1"]} for {op[2]} s')
        # ---- registry = what events and calls say. A request whose set-up is suspended in the send (not announced
        # yet) may or may not be registered already; once its set-up is over it is announced, or it is not there.
        may = (set(st.get('insetup', [])) - setup_removed - set(live.keys())) | setup_touched
        if not settled:
            # between single iterations the owner of a set-up whose send has returned may be anywhere between the
            # registration and the announcement; judged when the loop has run until nothing was ready
            may |= {x for x in setup_seen if x not in live and x not in setup_removed and
                    not any(q['ticket'] == x for q in reqs.values())}
        after = [x for x in st['after'] if x not in may]
        # between two single iterations a request whose timeout has come may already be out of the registry while its
        # report is still on its way (same instant, a later iteration); when the loop has run on, the report is there
        expiring = set() if settled else {x for x, rid_ in live.items() if x not in st['after'] and
                                          reqs[rid_]['deadline'] is not None and reqs[rid_]['deadline'] <= st['t1']}
        if sorted(x for x in live if x not in may and x not in expiring) != after:
            orphans = [x for x in after if x not in live and x in setup_seen]
            if orphans and all(x in live or x in orphans for x in after) and all(x in after for x in live):
                tk = orphans[0]
                bad('C18-setup-left-registered', f'{where}: ticket {tk} is in SearchManager.requests although its '
                    'set-up is over (the send failed, its owner was cancelled, or the user removed it meanwhile) and no '
                    'SearchRequestSentEvent announced it' +
                    (' — it has no Timer: it is never removed, never reported, and replies with its ticket are '
                     'reported for a request nobody was told about' if tk in st.get('timerless', []) else ''),
                    observed=st['after'], required=sorted(live.keys()))
                return vs
            bad('C18-registry-mismatch', f'{where}: SearchManager.requests = {st["after"]} but events/calls imply '
                f'{sorted(live.keys())} (a request vanished or stayed without report)', observed=st['after'],
                required=sorted(live.keys()))
            return vs
        # ---- after the loop has run until nothing was ready, nothing that is due is still registered
        if settled:
            for rid, r in reqs.items():
                if r['live'] and r['deadline'] is not None and r['deadline'] <= st['t1']:
                    bad('C18-timeout-missed', f'{where}: request {r["ticket"]} still registered at t={st["t1"]}, its '
                        f'timeout was t={r["deadline"]} ({r["why"]})', observed=st['t1'], required=r['deadline'])
        if vs:
            return vs
    t = tr['tail']
    # gated replies: anything reported only after the last op (the harness releases every gate at the end)
    for tt, kind, tk, rid, stype, rtk in t.get('late_events', []):
        r = reqs.get(rid)
        g = pick_reply(tk, rid)
        if kind == 'R' and g is not None:
            g['answered'] = True
            if r is None or not r['live']:
                bad('C18-result-after-remove' if (r and r['by_user']) else 'C18-result-after-timeout',
                    f'end of case: SearchResultEvent for ticket {tk} at t={tt} after the request was removed',
                    observed=[tt, tk])
        elif kind == 'R':
            bad('C18-result-unsolicited', 'end of case: SearchResultEvent without a reply', observed=[tt, tk])
    # a gated reply for a request that stayed registered from the reply to the end must have been reported
    for g in gated:
        r = reqs.get(g['rid']) if g['rid'] is not None else None
        if not g['answered'] and r is not None and r['live'] and not t.get('handlers_pending'):
            bad('C18-result-missing', f'op #{g["op"]}: the reply for ticket {g["tk"]} was never reported although '
                'the request stayed registered', observed=0, required=1)
    _listener_check(case, tr, bad)
    if t.get('handlers_pending') and not t.get('listeners_busy'):     # (a listener may still be asleep: not stuck)
        bad('C18-handler-stuck', 'a reply handler did not finish after its connection was released',
            observed=t['handlers_pending'])
    if t['late_errors'] or t['loop_exceptions']:
        bad('C18-loop-error', 'exception reached the loop exception handler / a library task',
            observed=[t['late_errors'], t['loop_exceptions']])
    return vs


def _listener_check(case: dict, tr: dict, bad) -> None:
    """"reported exactly once" per listener: every SearchRequestRemovedEvent / SearchResultEvent that was emitted
    (= seen by the first listener of its class, the harness's recorder) is handed to EVERY other registered listener
    of that class exactly once, and no listener is aborted (CancelledError) while it handles it. A listener that has
    not been told yet is only counted as missed when the delivery is over (no listener of that class is still busy
    with the same event). SearchRequestSentEvent is not part of the property statement: not judged."""
    L = tr['tail'].get('lis')
    specs = case['cfg'].get('lis')
    if not L or not specs:
        return
    ops = case['ops']
    for cls, name in (('X', 'removal'), ('R', 'result')):
        n = len(specs.get(cls, []))
        if not n:
            continue
        prim: dict = {}
        for c, t, rid, aux, opi in L['prim']:
            if c == cls:
                prim.setdefault((rid, aux), []).append((t, opi))
        ent: dict = {}
        for c, idx, t, rid, aux, opi in L['enter']:
            if c == cls:
                ent.setdefault((rid, aux), {}).setdefault(idx, []).append((t, opi))
        exi: dict = {}
        for c, idx, t, rid, aux, how, opi in L['exit']:
            if c == cls:
                exi.setdefault((rid, aux), {}).setdefault(idx, []).append((t, opi, how))
        for key in sorted(set(prim) | set(ent)):
            want = len(prim.get(key, []))
            tk = tr['tail'].get('tickets', {}).get(str(key[0]))
            what = (f'the removal of request #{key[0]} (ticket {tk})' if cls == 'X' else
                    f'result #{key[1]} for request #{key[0]} (ticket {tk})')
            busy = any(len(ent.get(key, {}).get(j, [])) > len(exi.get(key, {}).get(j, [])) for j in range(n))
            for j in range(n):
                got = ent.get(key, {}).get(j, [])
                outs = exi.get(key, {}).get(j, [])
                cancelled = [x for x in outs if x[2] == 'cancelled']
                def at(x):
                    return f't={x[0]} (' + (f'op #{x[1]} {ops[x[1]]}' if x[1] < len(ops) else 'end of case') + ')'
                if cancelled:
                    bad(f'C18-{name}-listener-aborted',
                        f'{what}, emitted at {at(prim[key][0]) if key in prim else "?"}: listener #{j + 1} '
                        f'({specs[cls][j]}) got CancelledError at {at(cancelled[0])} while handling it — the task that '
                        'runs EventBus.emit was cancelled; the listeners after it are never told',
                        observed={'listener': j + 1, 'entered': got, 'left': outs}, required='told exactly once, not aborted')
                    return
                if len(got) > want:
                    bad(f'C18-{name}-told-twice', f'{what}: emitted {want}x but listener #{j + 1} ({specs[cls][j]}) '
                        f'was told {len(got)}x', observed=len(got), required=want)
                    return
                if len(got) < want and not busy:
                    bad(f'C18-{name}-not-told', f'{what}, emitted at {at(prim[key][0])}: listener #{j + 1} '
                        f'({specs[cls][j]}) was told {len(got)}x although the delivery is over '
                        f'({n} extra listeners registered; told: '
                        f'{[len(ent.get(key, {}).get(q, [])) for q in range(n)]})',
                        observed=len(got), required=want)
                    return


# ------------------------------------------------------------------------------------------------
# generator
# ------------------------------------------------------------------------------------------------

def _tickets(initial: int, n: int) -> list[int]:
    out, idx = [], initial
    for _ in range(n):
        idx = initial if idx + 1 > MAXT else idx + 1
        out.append(idx)
    return out


def _gen_cfg(rng: random.Random) -> dict:
    initial = 1 if rng.random() < 0.8 else MAXT - rng.choice([0, 1, 2, 3, 5, 8, 12, 40])
    n_items = rng.choice([0, 1, 1, 2, 2, 3])
    return {'rt': rng.choice([0, 0, -1, 1, 2, 3, 3, 5, 5, 8]),
            'wt': rng.choice([-1, -1, -1, 0, 1, 2, 4, 7]),
            'store': rng.choice([1, 1, 0]),
            'initial': initial,
            'items': [0 if rng.random() < 0.2 else 1 for _ in range(n_items)]}


def _gen_random(rng: random.Random) -> dict:
    cfg = _gen_cfg(rng)
    guess = _tickets(cfg['initial'], 8)
    ops: list = []
    n = rng.randint(2, 10)
    drawn = 0
    for _ in range(n):
        r = rng.random()
        tk = rng.choice(guess[:max(1, min(8, drawn + 1))]) if rng.random() < 0.85 else \
            rng.choice([0, 1, 7, 999999, MAXT, MAXT + 1, guess[-1]])
        if r < 0.22:
            ops.append(['search', rng.choice(['net', 'room', 'user'])])
            drawn += 1
        elif r < 0.30:
            ops.append(['wlmsg', rng.choice([1, 2, 3, 3, 5, 9])])
            drawn += 2
        elif r < 0.33:
            ops.append(['wlclose'])
        elif r < 0.45:
            ops.append(['remove', tk])
        elif r < 0.60:
            ops.append(['reply', tk])
        elif r < 0.66:
            ops.append(['tcancel', tk])
        elif r < 0.76:
            ops.append(['tresched', tk, rng.choice([0, 1, 2, 3, 5])])
        elif r < 0.84:
            ops.append(['jump', rng.choice([1, 1, 2, 3, 5])])
        else:
            ops.append(['sleep', rng.choice([0, 0, 1, 1, 2, 3, 5, 8, 13])])
    if rng.random() < 0.7:
        ops = ops[:9] + [['sleep', rng.choice([0, 5, 10, 20])]]
    return {'cfg': cfg, 'ops': ops, 'kind': 'random'}


def _gen_instant(rng: random.Random) -> dict:
    """removal / expiry / reply (/ cancel / re-arm) of one request at the instant of its timeout, in a random order."""
    cfg = _gen_cfg(rng)
    wish = rng.random() < 0.3
    if wish:
        cfg['items'] = [1] + cfg['items'][:1]
        cfg['wt'] = rng.choice([-1, -1, 2, 3])
    else:
        cfg['rt'] = rng.choice([1, 2, 3, 5])
    ops: list = []
    draws = 0
    for _ in range(rng.randint(0, 2)):
        ops.append(['search', rng.choice(['net', 'room', 'user'])])
        draws += 1
        if rng.random() < 0.5:
            ops.append(['sleep', rng.choice([0, 1, 2])])
    if wish:
        iv = rng.choice([2, 3, 4])
        ops += [['wlmsg', iv], ['sleep', 0]]
        T = cfg['wt'] if cfg['wt'] >= 0 else iv
    else:
        ops.append(['search', rng.choice(['net', 'room', 'user'])])
        T = cfg['rt']
    tk = _tickets(cfg['initial'], draws + 1)[-1]
    if rng.random() < 0.35:
        n = rng.choice([0, 1, 2, T])
        pre = rng.choice([0, 1, T - 1 if T > 1 else 0])
        ops += [['sleep', pre]] if rng.random() < 0.6 else [['jump', pre]]
        ops.append(['tresched', tk, n])
        if rng.random() < 0.7:
            ops.append(['sleep', 0])
        T = n
    acts = [['remove', tk], ['reply', tk], ['sleep', 0]]
    if rng.random() < 0.4:
        acts.append(rng.choice([['tcancel', tk], ['tresched', tk, rng.choice([0, 1, 2])], ['reply', tk], ['remove', tk]]))
    rng.shuffle(acts)
    delta = rng.choice([T, T, T, max(T - 1, 0), T + 1])
    ops.append(['jump', delta] if rng.random() < 0.7 else ['sleep', delta])
    ops += acts
    ops.append(['sleep', rng.choice([0, 1, 5, 10])])
    return {'cfg': cfg, 'ops': ops[:12], 'kind': 'instant'}


def _fixed_cases() -> list[dict]:
    """every order of {remove, reply, loop turn} at the instant of the timeout, for the three timeout sources"""
    out = []
    base = {'store': 1, 'initial': 1}
    for perm in itertools.permutations([['remove', 2], ['reply', 2], ['sleep', 0]]):
        out.append({'cfg': dict(base, rt=3, wt=-1, items=[]), 'kind': 'fixed',
                    'ops': [['search', 'net'], ['jump', 3]] + [list(p) for p in perm] + [['sleep', 5]]})
        out.append({'cfg': dict(base, rt=0, wt=-1, items=[1]), 'kind': 'fixed',
                    'ops': [['wlmsg', 4], ['sleep', 0], ['jump', 4]] + [list(p) for p in perm] + [['sleep', 5]]})
        out.append({'cfg': dict(base, rt=0, wt=2, items=[1, 0, 1]), 'kind': 'fixed',
                    'ops': [['wlmsg', 5], ['sleep', 0], ['jump', 2]] + [list(p) for p in perm] + [['sleep', 5]]})
    out.append({'cfg': dict(base, rt=0, wt=0, items=[1]), 'kind': 'fixed',
                'ops': [['search', 'user'], ['wlmsg', 3], ['sleep', 7], ['reply', 2], ['reply', 3], ['remove', 2], ['sleep', 50]]})
    out.append({'cfg': {'rt': 2, 'wt': -1, 'store': 1, 'initial': MAXT - 2, 'items': []}, 'kind': 'fixed',
                'ops': [['search', 'net'], ['search', 'net'], ['search', 'room'], ['reply', MAXT], ['reply', MAXT - 2],
                        ['sleep', 2]]})
    return out


def _gen_gated(rng: random.Random) -> dict:
    """MONITOR ONLY (the model stays atomic): a reply whose connection.disconnect() suspends; while the handler is
    suspended there the schedule removes the request, lets its timeout expire, or delivers another reply for the
    same ticket; then the connection is released and the loop runs."""
    cfg = _gen_cfg(rng)
    cfg['initial'] = 1
    wish = rng.random() < 0.3
    if wish:
        cfg['items'] = [1] + cfg['items'][:1]
        cfg['wt'] = rng.choice([-1, -1, 2, 3, 0])
    else:
        cfg['rt'] = rng.choice([0, 1, 2, 3, 5])
    ops: list = []
    draws = 0
    for _ in range(rng.randint(0, 2)):
        ops.append(['search', rng.choice(['net', 'room', 'user'])])
        draws += 1
    if wish:
        iv = rng.choice([2, 3, 4])
        ops += [['wlmsg', iv], ['sleep', 0]]
        T = cfg['wt'] if cfg['wt'] >= 0 else iv
    else:
        ops.append(['search', rng.choice(['net', 'room', 'user'])])
        T = cfg['rt']
    tk = _tickets(1, draws + 1)[-1]
    if rng.random() < 0.4:
        ops.append(['sleep', rng.choice([0, 1, max(T - 1, 0)])])
    ops.append(['greply', tk])
    if rng.random() < 0.9:
        ops.append(['sleep', 0])                  # the handler runs up to disconnect()
    what = rng.choice(['remove', 'remove', 'expiry', 'expiry', 'second', 'mixed'])
    mid: list = []
    if what in ('remove', 'mixed'):
        mid.append(['remove', tk])
    if what in ('expiry', 'mixed') and T > 0:
        mid += [['jump', rng.choice([T, T, T + 1])], ['sleep', 0]] if rng.random() < 0.6 else [['sleep', T]]
    if what in ('second', 'mixed') or rng.random() < 0.2:
        mid += [rng.choice([['greply', tk], ['reply', tk]])]
        if rng.random() < 0.5:
            mid.append(['sleep', 0])
    if rng.random() < 0.15:
        mid.insert(0, rng.choice([['tcancel', tk], ['tresched', tk, rng.choice([0, 1, 2])]]))
    if rng.random() < 0.1:                        # control: released before anything happens
        ops += [['release'], ['sleep', 0]]
    ops += mid
    ops += [['release'], ['sleep', 0]]
    if rng.random() < 0.5:
        ops.append(['sleep', rng.choice([1, 5, 10])])
    return {'cfg': cfg, 'ops': ops, 'kind': 'gated', 'what': what}


def _fixed_gated() -> list[dict]:
    out = []
    base = {'store': 1, 'initial': 1}
    srcs = [(dict(base, rt=3, wt=-1, items=[]), [['search', 'net']], 3),
            (dict(base, rt=0, wt=-1, items=[1]), [['wlmsg', 4], ['sleep', 0]], 4),
            (dict(base, rt=0, wt=2, items=[1]), [['wlmsg', 5], ['sleep', 0]], 2)]
    for cfg, pre, T in srcs:
        for mid in ([['remove', 2]], [['jump', T], ['sleep', 0]], [['sleep', T]], [['greply', 2], ['sleep', 0]],
                    [['greply', 2], ['sleep', 0], ['remove', 2]], [['remove', 2], ['reply', 2]]):
            out.append({'cfg': dict(cfg), 'kind': 'gated', 'what': 'fixed',
                        'ops': pre + [['greply', 2], ['sleep', 0]] + mid + [['release'], ['sleep', 0], ['sleep', 6]]})
    return out


def _gen_gsent(rng: random.Random) -> dict:
    """MONITOR ONLY: what happens around the SearchRequestSentEvent notification. Either a slow async listener of
    that event (the search call / the wishlist task stays suspended inside `emit` until `srelease`) while the
    schedule removes the request, delivers a WishlistInterval message, closes the server connection, replies, or
    lets time pass; or a plain listener that removes the request it is being told about."""
    cfg = _gen_cfg(rng)
    cfg['initial'] = 1
    wish = rng.random() < 0.4
    mode = 'slow' if rng.random() < 0.7 else 'remove'
    cfg['sent'] = mode
    if wish:
        cfg['items'] = rng.choice([[1], [1, 1], [1, 0, 1]])
        cfg['wt'] = rng.choice([-1, -1, 2, 3])
        cfg['rt'] = rng.choice([0, 2, 5])
    else:
        cfg['rt'] = rng.choice([1, 2, 3, 5])
    ops: list = []
    if mode == 'remove':
        n = rng.randint(1, 3)
        cfg['sent_remove'] = sorted(rng.sample(range(4), rng.randint(1, 3)))
        T = cfg['rt']
        for _ in range(n):
            ops.append(['search', rng.choice(['net', 'room', 'user'])])
            if rng.random() < 0.4:
                ops.append(['sleep', rng.choice([0, 1])])
        if wish:
            iv = rng.choice([2, 3, 4])
            ops += [['wlmsg', iv], ['sleep', 0]]
            T = max(T, cfg['wt'] if cfg['wt'] >= 0 else iv)
            if rng.random() < 0.5:
                ops += [['sleep', iv], ['wlclose']]
        ops.append(['sleep', T + rng.choice([0, 1, 6])])
        return {'cfg': cfg, 'ops': ops, 'kind': 'gsent', 'what': 'listener-removes'}
    # slow listener
    draws = 0
    what = []
    if not wish:
        if rng.random() < 0.3:                       # one search that completes normally first
            ops += [['gsearch', rng.choice(['net', 'room', 'user'])], ['sleep', 0], ['srelease'], ['sleep', 0]]
            draws += 1
        ops += [['gsearch', rng.choice(['net', 'room', 'user'])]]
        draws += 1
        if rng.random() < 0.9:
            ops.append(['sleep', 0])                 # the call runs up to the slow listener
        T = cfg['rt']
    else:
        iv = rng.choice([2, 3, 4])
        ops += [['wlmsg', iv], ['sleep', 0]]         # the round registers its first item and suspends
        draws += 1
        T = cfg['wt'] if cfg['wt'] >= 0 else iv
    tk = _tickets(1, draws)[-1]
    for _ in range(rng.randint(1, 3)):
        r = rng.random()
        if r < 0.35:
            ops.append(['remove', tk]); what.append('remove')
        elif r < 0.55:
            d = rng.choice([1, max(T - 1, 0), T, T + 1])
            ops += [['jump', d], ['sleep', 0]] if rng.random() < 0.5 else [['sleep', d]]
            what.append('time')
        elif r < 0.70:
            ops.append(['wlmsg', rng.choice([2, 3, 4])]); what.append('wlmsg')
            if rng.random() < 0.6:
                ops.append(['sleep', 0])
        elif r < 0.82:
            ops.append(['wlclose']); what.append('wlclose')
            if rng.random() < 0.6:
                ops.append(['sleep', 0])
        elif r < 0.92:
            ops.append(['reply', tk]); what.append('reply')
        else:
            ops += [['srelease'], ['sleep', 0]]; what.append('release')
    ops += [['srelease'], ['sleep', 0]]
    if rng.random() < 0.3:
        ops.append(['remove', rng.choice([tk, tk + 1])])
    if wish or 'wlmsg' in what:
        ops += [['wlclose'], ['srelease'], ['sleep', 0]]
    ops.append(['sleep', T + rng.choice([1, 5, 8])])
    return {'cfg': cfg, 'ops': ops, 'kind': 'gsent', 'what': 'slow-listener'}


def _fixed_gsent() -> list[dict]:
    out = []
    b = {'store': 1, 'initial': 1}
    # (1) the sent-listener removes the request it is told about
    out.append({'cfg': dict(b, rt=3, wt=-1, items=[], sent='remove', sent_remove=[0]), 'kind': 'gsent', 'what': 'fixed',
                'ops': [['search', 'net'], ['search', 'user'], ['sleep', 10]]})
    out.append({'cfg': dict(b, rt=0, wt=-1, items=[1, 1], sent='remove', sent_remove=[1]), 'kind': 'gsent',
                'what': 'fixed', 'ops': [['wlmsg', 4], ['sleep', 0], ['wlclose'], ['sleep', 10]]})
    # (2) remove_request from another task while the slow sent-listener is suspended
    out.append({'cfg': dict(b, rt=3, wt=-1, items=[], sent='slow'), 'kind': 'gsent', 'what': 'fixed',
                'ops': [['gsearch', 'net'], ['sleep', 0], ['remove', 2], ['srelease'], ['sleep', 0], ['sleep', 10]]})
    out.append({'cfg': dict(b, rt=3, wt=-1, items=[], sent='slow'), 'kind': 'gsent', 'what': 'fixed',
                'ops': [['gsearch', 'room'], ['sleep', 1], ['remove', 2], ['sleep', 5], ['srelease'], ['sleep', 10]]})
    out.append({'cfg': dict(b, rt=0, wt=2, items=[1], sent='slow'), 'kind': 'gsent', 'what': 'fixed',
                'ops': [['wlmsg', 9], ['sleep', 0], ['remove', 2], ['srelease'], ['sleep', 0], ['wlclose'], ['sleep', 10]]})
    # (3) the wishlist task is cancelled while the slow sent-listener of its round is suspended
    for cancel in (['wlmsg', 4], ['wlclose']):
        for wt in (-1, 3):
            out.append({'cfg': dict(b, rt=0, wt=wt, items=[1, 1], sent='slow'), 'kind': 'gsent', 'what': 'fixed',
                        'ops': [['wlmsg', 4], ['sleep', 0], cancel, ['sleep', 0], ['srelease'], ['sleep', 0], ['wlclose'],
                                ['srelease'], ['sleep', 0], ['sleep', 12]]})
    # time passes while the listener is suspended: removal at the timeout, reported once
    out.append({'cfg': dict(b, rt=3, wt=-1, items=[], sent='slow'), 'kind': 'gsent', 'what': 'fixed',
                'ops': [['gsearch', 'net'], ['sleep', 0], ['sleep', 3], ['reply', 2], ['srelease'], ['sleep', 0], ['sleep', 5]]})
    return out


def _gen_listeners(rng: random.Random, cls: str, n: int, suspend_first: bool) -> list:
    out = []
    for i in range(n):
        r = rng.random()
        if i == 0 and suspend_first:
            r = 0.25 + 0.60 * rng.random()
        if r < 0.13:
            out.append(['plain'])
        elif r < 0.25:
            out.append(['async'])
        elif r < 0.50:
            out.append(['yield', rng.choice([1, 1, 2, 3])])
        elif r < 0.62:
            out.append(['nap', rng.choice([1, 2, 4])])
        elif r < 0.85:
            out.append(['gate'])
        elif r < 0.92:
            out.append(['raise'])
        elif cls == 'R':
            out.append(['remove', rng.choice([0, 0, 1])])
        elif cls == 'X':
            out.append(['research', 1])
        else:
            out.append(['plain'])
    return out


def _gen_multi(rng: random.Random) -> dict:
    """MONITOR ONLY: every event class has SEVERAL listeners, some of which suspend (for 1..3 loop iterations, for
    some seconds, or until the schedule releases them), fail, or act (remove the request on a result, search again on
    a removal). Searches and replies run as tasks of their own; while an event is being handed from listener to
    listener the schedule removes the request (by ticket / by object), lets time pass, delivers replies and
    WishlistInterval messages, closes the server connection, cancels / re-arms timers, or stops the manager."""
    cfg = _gen_cfg(rng)
    cfg['initial'] = 1
    wish = rng.random() < 0.3
    if wish:
        cfg['items'] = rng.choice([[1], [1, 1], [1, 0, 1]])
        cfg['wt'] = rng.choice([-1, -1, 2, 3, 0])
        cfg['rt'] = rng.choice([0, 2, 3, 5])
    else:
        cfg['rt'] = rng.choice([1, 2, 2, 3, 5])
    focus = rng.choice(['X', 'X', 'X', 'R', 'R', 'S'])
    lis = {}
    for cls in ('S', 'R', 'X'):
        n = rng.choice([2, 2, 3]) if cls == focus else rng.choice([0, 0, 1, 2])
        lis[cls] = _gen_listeners(rng, cls, n, suspend_first=(cls == focus))
    cfg['lis'] = lis
    ops: list = []
    draws = 0
    for _ in range(rng.randint(0, 2)):
        ops += [['gsearch', rng.choice(['net', 'room', 'user'])]]
        draws += 1
        if rng.random() < 0.7:
            ops.append(['sleep', rng.choice([0, 0, 1])])
    if wish:
        iv = rng.choice([2, 3, 4])
        ops += [['wlmsg', iv], ['sleep', 0]]
        draws += 1
        T = (cfg['wt'] if cfg['wt'] >= 0 else iv) or cfg['rt'] or 3
    else:
        ops += [['gsearch', rng.choice(['net', 'room', 'user'])], ['sleep', 0]]
        draws += 1
        T = cfg['rt']
    tks = _tickets(1, draws + 3)
    tk = tks[draws - 1]
    stopped = False
    for _ in range(rng.randint(3, 8)):
        r = rng.random()
        t = tk if rng.random() < 0.75 else rng.choice(tks)
        if r < 0.28:
            d = rng.choice([0, 0, 1, max(T - 1, 0), T, T, T + 1])
            ops += [['jump', d], ['sleep', 0]] if (d and rng.random() < 0.3) else [['sleep', d]]
        elif r < 0.40:
            ops.append([rng.choice(['remove', 'removeobj']), t])
        elif r < 0.58:
            ops.append(['greply', t])
            if rng.random() < 0.6:
                ops.append(['sleep', 0])
        elif r < 0.72:
            ops.append(['lrelease'])
            if rng.random() < 0.7:
                ops.append(['sleep', 0])
        elif r < 0.78 and not stopped:
            ops.append(['wlmsg', rng.choice([2, 3, 4])])
            wish = True
        elif r < 0.83:
            ops.append(['wlclose'])
        elif r < 0.88:
            ops.append(rng.choice([['tcancel', t], ['tresched', t, rng.choice([0, 1, 2])]]))
        elif r < 0.94 and not stopped:
            ops += [['gsearch', rng.choice(['net', 'room', 'user'])], ['sleep', 0]]
        elif not stopped and rng.random() < 0.5:
            ops.append(['stop'])
            stopped = True
    ops += [['lrelease'], ['sleep', 0]]
    if wish:
        ops += [['wlclose'], ['srelease'], ['lrelease'], ['sleep', 0]]
    ops += [['sleep', T + rng.choice([1, 5, 9])], ['lrelease'], ['sleep', rng.choice([0, 6, 15])]]
    return {'cfg': cfg, 'ops': ops, 'kind': 'multi', 'what': 'focus-' + focus}


def _fixed_multi() -> list[dict]:
    out = []
    b = {'store': 1, 'initial': 1}
    srcs = [(dict(b, rt=3, wt=-1, items=[]), [['gsearch', 'net'], ['sleep', 0]], 3),
            (dict(b, rt=0, wt=-1, items=[1]), [['wlmsg', 4], ['sleep', 0]], 4),
            (dict(b, rt=5, wt=2, items=[1]), [['wlmsg', 5], ['sleep', 0]], 2)]
    for cfg, pre, T in srcs:
        wl = [['wlclose']] if cfg['items'] else []
        # the removal report at EXPIRY with a listener that suspends for 0..3 iterations / a second / on a gate /
        # fails, followed by two more listeners
        for first in (['async'], ['yield', 1], ['yield', 3], ['nap', 1], ['gate'], ['raise']):
            out.append({'cfg': dict(cfg, lis={'S': [], 'R': [], 'X': [first, ['plain'], ['async']]}), 'kind': 'multi',
                        'what': 'fixed', 'ops': pre + [['sleep', T]] + wl + [['lrelease'], ['sleep', 0], ['sleep', 6]]})
        # … while the report is suspended: removal by ticket / by object, a reply, a WishlistInterval message, the
        # server closing, stop(), time
        for mid in ([['remove', 2]], [['removeobj', 2]], [['greply', 2], ['sleep', 0]], [['wlmsg', 3], ['sleep', 0]],
                    [['wlclose'], ['sleep', 0]], [['stop'], ['sleep', 0]], [['sleep', T + 1]]):
            out.append({'cfg': dict(cfg, lis={'S': [], 'R': [['plain']], 'X': [['gate'], ['yield', 1], ['plain']]}),
                        'kind': 'multi', 'what': 'fixed',
                        'ops': pre + [['sleep', T]] + mid + wl + [['lrelease'], ['sleep', 0], ['sleep', 6]]})
        # a result handed from listener to listener while the request is removed / expires / stop()
        for mid in ([['remove', 2]], [['removeobj', 2]], [['sleep', T]], [['stop'], ['sleep', 0]],
                    [['greply', 2], ['sleep', 0], ['remove', 2]]):
            out.append({'cfg': dict(cfg, lis={'S': [['yield', 1]], 'R': [['gate'], ['yield', 2], ['plain']],
                                             'X': [['yield', 1], ['plain']]}),
                        'kind': 'multi', 'what': 'fixed',
                        'ops': pre + [['greply', 2], ['sleep', 0]] + mid + wl + [['lrelease'], ['sleep', 0], ['sleep', 6]]})
        # a result listener that removes the request; later replies / the timeout must stay silent
        out.append({'cfg': dict(cfg, lis={'S': [], 'R': [['yield', 1], ['remove', 0], ['plain']], 'X': [['plain'], ['async']]}),
                    'kind': 'multi', 'what': 'fixed',
                    'ops': pre + [['greply', 2], ['greply', 2], ['sleep', 0], ['greply', 2], ['sleep', 0]] + wl + [['sleep', T + 3]]})
    # a removal listener that searches again (the new request is reported and expires like any other)
    out.append({'cfg': dict(b, rt=2, wt=-1, items=[], lis={'S': [['yield', 1]], 'R': [], 'X': [['research', 2], ['yield', 1], ['plain']]}),
                'kind': 'multi', 'what': 'fixed', 'ops': [['gsearch', 'user'], ['sleep', 0], ['sleep', 10]]})
    return out


def _gen_notify(rng: random.Random) -> dict:
    """MODELLED (Search.nstep): 1..3 extra SearchRequestRemovedEvent listeners that each wait until the schedule lets
    them return (`resume <ticket>`: one listener returns, the loop runs); everything else as in the random /
    same-instant families, plus remove_request(<object>)."""
    base = _gen_instant(rng) if rng.random() < 0.5 else _gen_random(rng)
    while base['cfg']['initial'] != 1:         # (the generator near its wrap is the business of the families above)
        base = _gen_instant(rng) if rng.random() < 0.5 else _gen_random(rng)
    cfg = base['cfg']
    if cfg['rt'] <= 0 and rng.random() < 0.7:
        cfg['rt'] = rng.choice([1, 2, 3])
    n = rng.choice([1, 2, 2, 3])
    cfg['lis'] = {'S': [], 'R': [], 'X': [['gate'] for _ in range(n)]}
    guess = _tickets(1, 6)
    ops: list = []
    for op in base['ops']:
        if op[0] == 'remove' and rng.random() < 0.4:
            op = ['removeobj', op[1]]
        ops.append(op)
        if rng.random() < 0.30:
            ops.append(['resume', rng.choice(guess[:4])])
        elif rng.random() < 0.04:
            ops.append(['stop'])
    for _ in range(rng.randint(0, 2 * n + 1)):
        ops.append(['resume', rng.choice(guess[:4])])
        if rng.random() < 0.3:
            ops.append(rng.choice([['sleep', rng.choice([0, 1, 3])], ['removeobj', rng.choice(guess[:4])],
                                   ['remove', rng.choice(guess[:4])], ['reply', rng.choice(guess[:4])],
                                   ['search', 'net']]))
    return {'cfg': cfg, 'ops': ops, 'kind': 'notify'}


def _fixed_notify() -> list[dict]:
    out = []
    b = {'store': 1, 'initial': 1}
    for n in (1, 2, 3):
        lis = {'S': [], 'R': [], 'X': [['gate']] * n}
        out.append({'cfg': dict(b, rt=3, wt=-1, items=[], lis=lis), 'kind': 'notify',
                    'ops': [['search', 'net'], ['sleep', 3]] + [['resume', 2]] * (n + 1) + [['sleep', 5]]})
        out.append({'cfg': dict(b, rt=3, wt=-1, items=[], lis=lis), 'kind': 'notify',
                    'ops': [['search', 'net'], ['search', 'user'], ['sleep', 3], ['resume', 3], ['removeobj', 2], ['remove', 3],
                            ['reply', 2], ['search', 'room'], ['resume', 2], ['sleep', 3], ['resume', 2], ['resume', 3],
                            ['resume', 4], ['resume', 2], ['resume', 3], ['resume', 4], ['resume', 4], ['resume', 4]]})
        out.append({'cfg': dict(b, rt=0, wt=2, items=[1, 1], lis=lis), 'kind': 'notify',
                    'ops': [['wlmsg', 5], ['sleep', 2], ['resume', 2], ['wlmsg', 3], ['resume', 3], ['sleep', 2], ['wlclose'],
                            ['resume', 2], ['resume', 3], ['resume', 4], ['resume', 5], ['sleep', 4]]})
    return out


def _timed_request(rng: random.Random, cfg: dict, ops: list, draws: int, src: str) -> tuple[int, int, int]:
    """appends the ops that create ONE request with a timeout from source `src` ('net' / 'room' / 'user': the
    request_timeout; 'wl-server': the server's wishlist interval; 'wl-own': wishlist_request_timeout) and lets its
    timer start; returns (ticket, timeout, draws)"""
    if src in ('net', 'room', 'user'):
        cfg['rt'] = rng.choice([1, 2, 3, 5])
        ops += [['search', src], ['tick']]
        return _tickets(1, draws + 1)[-1], cfg['rt'], draws + 1
    iv = rng.choice([2, 3, 4])
    cfg['items'] = [1] + cfg['items'][:1]
    cfg['wt'] = -1 if src == 'wl-server' else rng.choice([2, 3])
    ops += [['wlmsg', iv], ['tick'], ['tick']]   # the round runs in the first iteration, its timers start in the second
    return _tickets(1, draws + 1)[-1], (iv if cfg['wt'] < 0 else cfg['wt']), draws + sum(cfg['items'])


def _iter_action(rng: random.Random, tk: int, others: list) -> list:
    t = tk if rng.random() < 0.8 or not others else rng.choice(others)
    return rng.choice([['tcancel', t], ['tresched', t, rng.choice([0, 1, 2, 5])], ['tresched', t, rng.choice([1, 2, 5])],
                       ['remove', t], ['removeobj', t], ['reply', t], ['reply', t], ['wlmsg', rng.choice([2, 3, 4])],
                       ['wlclose'], ['stop'], ['search', rng.choice(['net', 'room', 'user'])]])


def _gen_iter(rng: random.Random) -> dict:
    """MODELLED (Search.step, op `tick`): an event lands in a chosen LOOP ITERATION around the expiry of a timer. The
    clock is put on (or next to) the deadline, the loop runs j = 0..5 single iterations, then Timer.cancel /
    reschedule / remove_request (by ticket, by object) / a reply / a WishlistInterval message / server closing /
    stop() / another search happens, then more single iterations, a second event, and finally the loop runs on."""
    cfg = _gen_cfg(rng)
    cfg['initial'] = 1
    ops: list = []
    draws = 0
    others = []
    for _ in range(rng.randint(0, 2)):
        ops.append(['search', rng.choice(['net', 'room', 'user'])])
        draws += 1
        others.append(_tickets(1, draws)[-1])
    tk, T, draws = _timed_request(rng, cfg, ops, draws, rng.choice(['net', 'room', 'user', 'wl-server', 'wl-server', 'wl-own']))
    if rng.random() < 0.25:                       # the timer was re-armed before
        pre = rng.choice([0, 1, max(T - 1, 0)])
        n = rng.choice([0, 1, 2, T])
        ops += [['jump', pre]] + [['tick']] * rng.choice([0, 1, 2]) + [['tresched', tk, n]] + [['tick']] * rng.choice([0, 1, 2])
        T = n
    ops.append(['jump', rng.choice([T, T, T, T, max(T - 1, 0), T + 1])])
    for _ in range(rng.randint(1, 3)):
        ops += [['tick']] * rng.randint(0, 5)
        ops.append(_iter_action(rng, tk, others))
    ops += [['tick']] * rng.randint(0, 4)
    if rng.random() < 0.3:
        ops += [['jump', 1]] + [['tick']] * rng.randint(1, 3) + [_iter_action(rng, tk, others)]
    ops += [['sleep', 0], ['wlclose'], ['sleep', rng.choice([1, 6, 12])]]
    return {'cfg': cfg, 'ops': ops, 'kind': 'iter'}


def _fixed_iter() -> list[dict]:
    """every action in every one of the iterations −1 … +4 around the iteration in which the sleep of the timer is over,
    for the three sources of a timeout"""
    out = []
    b = {'store': 1, 'initial': 1}
    srcs = [(dict(b, rt=3, wt=-1, items=[]), [['search', 'net'], ['tick']], 3, []),
            (dict(b, rt=0, wt=-1, items=[1]), [['wlmsg', 4], ['tick'], ['tick']], 4, [['wlclose']]),
            (dict(b, rt=5, wt=2, items=[1]), [['wlmsg', 7], ['tick'], ['tick']], 2, [['wlclose']])]
    for cfg, pre, T, wl in srcs:
        for act in (['tcancel', 2], ['tresched', 2, 2], ['tresched', 2, 0], ['remove', 2], ['removeobj', 2], ['reply', 2],
                    ['wlmsg', 3], ['wlclose'], ['stop'], ['search', 'user']):
            for j in range(6):
                out.append({'cfg': dict(cfg), 'kind': 'iter',
                            'ops': pre + [['jump', T]] + [['tick']] * j + [act] + [['tick']] * 3 +
                            [['reply', 2], ['sleep', 0]] + wl + [['sleep', 6]]})
    # two requests that expire in the same iteration; an event between two iterations hits one of them
    for act in (['tresched', 3, 1], ['remove', 3], ['tcancel', 3]):
        for j in range(5):
            out.append({'cfg': dict(b, rt=2, wt=-1, items=[]), 'kind': 'iter',
                        'ops': [['search', 'net'], ['search', 'room'], ['tick'], ['jump', 2]] + [['tick']] * j + [act] +
                        [['tick']] * 3 + [['sleep', 4]]})
    return out


def _gen_setup(rng: random.Random) -> dict:
    """MODELLED (Search.step, ops `gate`, `sendDone`, `cancelCall`): `send_server_messages` suspends. Requests of every
    kind are caught in the middle of their set-up (ticket drawn, send not finished); meanwhile the send is released,
    fails, the owner is cancelled (the caller's task; the wishlist task through a WishlistInterval message, the server
    connection closing, stop()), the user removes the ticket, a reply with it arrives, time passes, timers expire."""
    cfg = _gen_cfg(rng)
    cfg['initial'] = 1
    if rng.random() < 0.6:
        cfg['items'] = rng.choice([[1], [1, 1], [1, 0, 1], [1, 1, 1]])
        cfg['wt'] = rng.choice([-1, -1, -1, 2, 3, 0])
    cfg['rt'] = rng.choice([0, 1, 2, 3, 3, 5])
    guess = _tickets(1, 9)
    ops: list = []
    drawn = 0
    for _ in range(rng.randint(0, 2)):
        ops.append(['search', rng.choice(['net', 'room', 'user'])])
        drawn += 1
    if rng.random() < 0.3:
        ops += [['wlmsg', rng.choice([2, 3, 4])], ['sleep', rng.choice([0, 1])]]
        drawn += sum(cfg['items'])
    ops.append(['gate', 1])
    for _ in range(rng.randint(4, 12)):
        r = rng.random()
        d = min(drawn, len(guess) - 1)
        tk = rng.choice(guess[max(0, d - 2):d + 2]) if rng.random() < 0.85 else rng.choice(guess)
        if r < 0.14:
            ops.append(['search', rng.choice(['net', 'room', 'user'])])
            drawn += 1
        elif r < 0.22:
            ops.append(['wlmsg', rng.choice([2, 3, 4])])
            if rng.random() < 0.7:
                ops.append(['tick'])
                drawn += 1 if any(cfg['items']) else 0
        elif r < 0.36:
            ops.append(['sendok', tk])
            if rng.random() < 0.6:
                drawn += 1                      # (a wishlist round goes on to its next item)
            if rng.random() < 0.15:             # the caller is cancelled after the send returned (too late, as the code is)
                ops += [['tick'], ['ccancel', tk]]
        elif r < 0.44:
            ops.append(['sendfail', tk])
        elif r < 0.51:
            ops.append(['ccancel', tk])
        elif r < 0.57:
            ops.append(rng.choice([['wlclose'], ['wlclose'], ['stop']]))
        elif r < 0.64:
            ops.append([rng.choice(['remove', 'remove', 'removeobj']), tk])
        elif r < 0.72:
            ops.append(['reply', tk])
        elif r < 0.86:
            ops += rng.choice([[['tick']], [['tick']], [['tick'], ['tick']], [['sleep', 0]]])
        elif r < 0.92:
            ops.append(rng.choice([['jump', 1], ['jump', 2], ['sleep', 1], ['sleep', 3]]))
        elif r < 0.95:
            ops.append(['gate', rng.choice([0, 1])])
        else:
            ops.append(rng.choice([['tcancel', tk], ['tresched', tk, rng.choice([0, 1, 2])]]))
    # the network answers whatever is still waiting; the loop runs; every timeout passes
    for _ in range(3):
        ops += [['sendok', g] for g in guess[:min(9, drawn + 2)] if rng.random() < 0.8] + [['sleep', 0]]
    ops += [['gate', 0], ['wlclose'], ['sleep', rng.choice([6, 10])], ['reply', rng.choice(guess[:4])]]
    return {'cfg': cfg, 'ops': ops, 'kind': 'setup'}


def _fixed_setup() -> list[dict]:
    out = []
    b = {'store': 1, 'initial': 1}
    # (kind, cfg, ops that leave ONE request (ticket 2) suspended in the send of its set-up, timeout, is-wishlist)
    srcs = [(dict(b, rt=3, wt=-1, items=[]), [['gate', 1], ['search', k]], 3, False) for k in ('net', 'room', 'user')]
    srcs += [(dict(b, rt=0, wt=-1, items=[1, 1]), [['gate', 1], ['wlmsg', 4], ['tick']], 4, True),
             (dict(b, rt=5, wt=2, items=[1, 0, 1]), [['gate', 1], ['wlmsg', 6], ['tick']], 2, True)]
    for cfg, pre, T, wl in srcs:
        end = [['sendok', 3], ['sleep', 0], ['sendok', 4], ['sleep', 0], ['wlclose'], ['reply', 2], ['reply', 3],
               ['sleep', T + 3], ['reply', 2]]
        cancels = [[['wlmsg', 3]], [['wlclose']], [['stop']]] if wl else [[['ccancel', 2]]]
        mids = [[['sendok', 2], ['tick']],                                       # the plain case
                [['sendok', 2], ['tick'], ['jump', T], ['tick'], ['tick'], ['tick']],
                [['sendfail', 2], ['tick']],                                     # the send raises
                [['sendfail', 2], ['sleep', 0], ['reply', 2]],
                [['remove', 2], ['sendok', 2], ['tick']],                        # the user removes the ticket meanwhile
                [['removeobj', 2], ['sendok', 2], ['sleep', 0]],
                [['reply', 2], ['sendok', 2], ['tick'], ['reply', 2]],           # a reply beats the send
                [['jump', T], ['tick'], ['tick'], ['sendok', 2], ['tick']],      # time passes during the send
                [['sleep', T + 1], ['sendok', 2], ['sleep', 0]],
                [['gate', 0], ['sendok', 2], ['tick']]]
        if not wl:
            mids += [[['sendok', 2], ['tick'], ['ccancel', 2], ['tick']],        # cancelled when the call is over
                     [['sendok', 2], ['tick'], ['ccancel', 2], ['tick'], ['jump', T], ['tick'], ['tick'], ['tick']]]
        for c in cancels:
            mids += [c + [['tick']],                                             # the owner is cancelled in the send
                     c + [['sendok', 2], ['tick']],
                     [['sendok', 2]] + c + [['tick']],                           # … after the network answered
                     [['sendfail', 2]] + c + [['tick']],
                     c + [['sleep', 0], ['reply', 2]]]
        for mid in mids:
            out.append({'cfg': dict(cfg), 'kind': 'setup', 'ops': pre + mid + end})
    # a second item of the round; two calls whose sends return in the other order
    out.append({'cfg': dict(b, rt=0, wt=-1, items=[1, 1, 1]), 'kind': 'setup',
                'ops': [['gate', 1], ['wlmsg', 5], ['tick'], ['sendok', 2], ['tick'], ['wlmsg', 3], ['tick'], ['sendok', 3],
                        ['sendok', 4], ['tick'], ['sendfail', 5], ['tick'], ['reply', 3], ['reply', 5], ['sleep', 9]]})
    out.append({'cfg': dict(b, rt=2, wt=-1, items=[]), 'kind': 'setup',
                'ops': [['gate', 1], ['search', 'net'], ['search', 'user'], ['search', 'room'], ['sendok', 3], ['tick'],
                        ['ccancel', 4], ['sendok', 2], ['tick'], ['reply', 2], ['reply', 3], ['reply', 4], ['sleep', 5]]})
    return out


def _gen_relogin(rng: random.Random) -> dict:
    """MODELLED (Search.step, ops `sessionDestroyed` / `sessionInitialized`): the server session is lost and the client
    logs in again, once to three times, while requests are alive — requests without a timeout, with a long one, wishlist
    requests, requests still suspended in the send of their set-up.  In every session: searches of the three kinds,
    wishlist rounds, replies for old and new tickets, removals, Timer.cancel / reschedule, time passing.  The order of
    the events around a loss is the client's: ConnectionStateChangedEvent(CLOSING) [`wlclose`] … SessionDestroyedEvent
    [`sessdown`] … SessionInitializedEvent [`sessup`] … WishlistInterval message [`wlmsg`]; peers keep answering and the
    user keeps calling while logged out."""
    cfg = _gen_cfg(rng)
    if rng.random() < 0.85:
        cfg['initial'] = 1
    cfg['rt'] = rng.choice([0, 0, 0, 3, 6, 6, 12, 30])
    cfg['wt'] = rng.choice([-1, -1, 0, 0, 5, 9])
    guess = _tickets(cfg['initial'], 16)
    ops: list = []
    drawn = [0]

    def a_ticket():
        if rng.random() < 0.9:
            return rng.choice(guess[:max(1, min(len(guess), drawn[0] + 1))])
        return rng.choice([0, 1, 999999, MAXT, guess[-1]])

    def acts(n, logged_in):
        for _ in range(n):
            r = rng.random()
            tk = a_ticket()
            if r < 0.36:
                ops.append(['search', rng.choice(['net', 'room', 'user'])])
                drawn[0] += 1
            elif r < 0.44 and logged_in:
                ops.extend([['wlmsg', rng.choice([2, 4, 9, 15])], rng.choice([['sleep', 0], ['tick'], ['sleep', 1]])])
                drawn[0] += sum(cfg['items'])
            elif r < 0.60:
                ops.append(['reply', tk])
            elif r < 0.69:
                ops.append([rng.choice(['remove', 'removeobj']), tk])
            elif r < 0.75:
                ops.append(rng.choice([['tcancel', tk], ['tresched', tk, rng.choice([1, 3, 8])]]))
            elif r < 0.88:
                ops.append(rng.choice([['sleep', 0], ['sleep', 1], ['sleep', 2], ['jump', 1], ['jump', 3]]))
            else:
                ops.append(['tick'])

    if rng.random() < 0.7:
        ops.append(['sessup'])
        if rng.random() < 0.6:
            ops.extend([['wlmsg', rng.choice([3, 9, 15])], ['sleep', 0]])
            drawn[0] += sum(cfg['items'])
    acts(rng.randint(1, 4), True)
    for _ in range(rng.choice([1, 1, 1, 2, 3])):
        held = None
        # (a generator that starts next to 2^32 repeats its tickets after a few draws: two suspended set-ups could then
        #  hold the SAME ticket — outside the property's scope, and the harness addresses a suspended send by its ticket;
        #  such a configuration makes the same calls without closing the gate)
        gate_ok = cfg['initial'] == 1
        if rng.random() < 0.2:
            # a request is suspended in the send of its set-up while the session goes
            ops.extend(([['gate', 1]] if gate_ok else []) + [['search', rng.choice(['net', 'room', 'user'])]])
            drawn[0] += 1
            held = guess[min(drawn[0], len(guess)) - 1]
        ops.append(['wlclose'])
        acts(rng.choice([0, 0, 0, 1]), False)
        ops.append(['sessdown'])
        if held is not None:
            fate = [rng.choice([['sendfail', held], ['sendfail', held], ['sendok', held], ['ccancel', held]]),
                    ['gate', 0], rng.choice([['tick'], ['sleep', 0]])]
            ops.extend(fate if gate_ok else fate[2:])
        acts(rng.choice([0, 0, 1, 2]), False)
        ops.append(['sessup'])
        if rng.random() < 0.75:
            ops.extend([['wlmsg', rng.choice([2, 4, 9, 15])], rng.choice([['sleep', 0], ['tick']])])
            drawn[0] += sum(cfg['items'])
        acts(rng.randint(1, 5), True)
    ops += [['reply', a_ticket()], ['wlclose'], ['sleep', rng.choice([0, 4, 13, 31])], ['reply', a_ticket()],
            ['reply', a_ticket()]]
    return {'cfg': cfg, 'ops': ops, 'kind': 'relogin'}


def _fixed_relogin() -> list[dict]:
    """one or two requests of each kind of lifetime (no timeout / a long one / server wishlist interval) survive the
    loss of the session; the next session makes 1-3 new requests; every ticket is answered, time passes, every ticket
    is answered again"""
    out = []
    b = {'store': 1, 'initial': 1}
    srcs = [(dict(b, rt=0, wt=-1, items=[]), [['search', 'net']], 1),
            (dict(b, rt=0, wt=-1, items=[]), [['search', 'user'], ['search', 'room']], 2),
            (dict(b, rt=9, wt=-1, items=[]), [['search', 'room'], ['sleep', 1]], 1),
            (dict(b, rt=0, wt=-1, items=[1, 1]), [['wlmsg', 12], ['sleep', 0]], 2),
            (dict(b, rt=4, wt=0, items=[1]), [['search', 'net'], ['wlmsg', 5], ['sleep', 0]], 2)]
    for cfg, pre, n in srcs:
        for k in (1, 2, 3):
            for gap in ([], [['jump', 2]], [['sleep', 1], ['reply', 2]]):
                tks = list(range(2, 2 + n + k + sum(cfg['items'])))
                out.append({'cfg': dict(cfg), 'kind': 'relogin',
                            'ops': [['sessup']] + pre + [['wlclose'], ['sessdown']] + gap + [['sessup'], ['wlmsg', 12]] +
                            [['search', ('net', 'room', 'user')[j % 3]] for j in range(k)] + [['sleep', 0]] +
                            [['reply', t] for t in tks] + [['wlclose'], ['sleep', 13]] + [['reply', t] for t in tks]})
    # the session goes while a request is suspended in its send; two losses in a row; a loss without a session
    out.append({'cfg': dict(b, rt=0, wt=-1, items=[]), 'kind': 'relogin',
                'ops': [['sessup'], ['search', 'net'], ['gate', 1], ['search', 'user'], ['wlclose'], ['sessdown'],
                        ['sendfail', 3], ['gate', 0], ['tick'], ['sessup'], ['search', 'room'], ['search', 'net'],
                        ['reply', 2], ['reply', 3], ['reply', 4], ['reply', 5], ['sleep', 1]]})
    out.append({'cfg': dict(b, rt=6, wt=-1, items=[1]), 'kind': 'relogin',
                'ops': [['sessup'], ['wlmsg', 8], ['sleep', 0], ['search', 'net'], ['wlclose'], ['sessdown'], ['sessup'],
                        ['wlclose'], ['sessdown'], ['sessdown'], ['jump', 1], ['sessup'], ['wlmsg', 8], ['search', 'user'],
                        ['sleep', 0], ['reply', 2], ['reply', 3], ['reply', 4], ['reply', 5], ['sleep', 6], ['reply', 2],
                        ['reply', 4], ['sleep', 3], ['reply', 5]]})
    return out


def _relogin_stats(case, tr) -> dict:
    """`relogin` family: requests that were registered when a session was destroyed and (a) were still registered when a
    request of a later session was announced, (b) got a reply reported after the next login, (c) timed out after it"""
    out: dict = {}
    survivors: set = set()        # harness ids of requests registered at a `sessdown`
    reg: dict = {}                # ticket -> harness id, by the events
    up = False
    for op, st in zip(case['ops'], tr['steps']):
        for t, kind, tk, rid, stype, rtk in st['events']:
            if kind == 'S':
                if up and any(reg.get(k_) == r_ for k_ in st['after'] for r_ in survivors):
                    out['new-request-beside-survivor'] = out.get('new-request-beside-survivor', 0) + 1
                reg[tk] = rid
            elif kind == 'R' and rid in survivors and up:
                out['survivor-answered-after-login'] = out.get('survivor-answered-after-login', 0) + 1
            elif kind == 'X' and rid in survivors and up:
                out['survivor-timed-out-after-login'] = out.get('survivor-timed-out-after-login', 0) + 1
        if op[0] == 'sessdown':
            survivors |= {reg[k_] for k_ in st['after'] if k_ in reg}
            if st.get('insetup'):
                out['set-up-suspended-at-session-loss'] = out.get('set-up-suspended-at-session-loss', 0) + 1
            up = False
        elif op[0] == 'sessup' and survivors:
            up = True
        if st.get('regen'):
            out['generator-replaced'] = out.get('generator-replaced', 0) + 1
    return out


# known defects of the unchanged tree (repaired by the proposed patches) — replayed on every run
W_REMOVE = {'cfg': {'rt': 5, 'wt': -1, 'store': 1, 'initial': 1, 'items': []}, 'kind': 'witness',
            'ops': [['search', 'net'], ['remove', 2], ['sleep', 10]]}
W_REARM = {'cfg': {'rt': 5, 'wt': -1, 'store': 1, 'initial': 1, 'items': []}, 'kind': 'witness',
           'ops': [['search', 'net'], ['sleep', 1], ['tresched', 2, 5], ['sleep', 0], ['tcancel', 2], ['sleep', 10]]}
W_WLMSG = {'cfg': {'rt': 0, 'wt': -1, 'store': 1, 'initial': 1, 'items': [1]}, 'kind': 'witness',
           'ops': [['wlmsg', 3], ['sleep', 1], ['wlmsg', 3], ['sleep', 7]]}


def _eval_case(case):
    return _run_impl(case)


def _nontrivial(case, tr) -> bool:
    timed_out = any(e[1] == 'X' for st in tr['steps'] for e in st['events'])
    stale = False
    seen: set = set()
    for op, st in zip(case['ops'], tr['steps']):
        for e in st['events']:
            if e[1] == 'S':
                seen.add(e[2])
        if op[0] in ('reply', 'remove') and op[1] in seen and op[1] not in st['before']:
            stale = True
        if op[0] in ('remove', 'tcancel', 'tresched') and st['ret'] in ('removed', 'armed') and op[1] in st['before']:
            stale = True
    return timed_out and stale


MONITOR_ONLY = ('gated', 'gsent', 'multi')   # case families evaluated by the monitor only (the model stays atomic)


def _gated_stats(case, tr) -> dict:
    """what happened while at least one reply handler was suspended in disconnect() / at least one
    SearchRequestSentEvent listener was suspended (or: how often the sent-listener removed its own request)"""
    out = {'remove': 0, 'timeout': 0, 'reply': 0, 'wishlist-cancelled': 0, 'listener-removed': 0}
    prev = 0
    for op, st in zip(case['ops'], tr['steps']):
        if prev > 0:
            if op[0] == 'remove' and st['ret'] == 'removed':
                out['remove'] += 1
            if any(e[1] == 'X' for e in st['events']):
                out['timeout'] += 1
            if op[0] in ('greply', 'reply'):
                out['reply'] += 1
            if op[0] in ('wlmsg', 'wlclose') and case['kind'] == 'gsent':
                out['wishlist-cancelled'] += 1
        out['listener-removed'] += sum(1 for e in st['events'] if e[1] == 'U')
        prev = st.get('susp', 0) + st.get('susp_sent', 0)
    return out


def _multi_stats(case, tr) -> dict:
    """`multi` / `notify` families: how many result / removal events went to >= 2 extra listeners, how many listener
    calls really suspended (returned in a later op or after time passed), and what the schedule did while a result or
    a removal was being handed from listener to listener"""
    out = {'removal-to-several-listeners': 0, 'result-to-several-listeners': 0, 'listener-suspended-across-ops': 0,
           'listener-suspended-in-loop': 0, 'listener-raised': 0, 'remove': 0, 'reply': 0, 'stop': 0,
           'wishlist-cancelled': 0, 'time-passed': 0, 'timer-op': 0, 'resume-told-next': 0, 'search-again': 0}
    L = tr['tail'].get('lis')
    specs = case['cfg'].get('lis') or {}
    if not L:
        return out
    for cls, key in (('X', 'removal-to-several-listeners'), ('R', 'result-to-several-listeners')):
        if len(specs.get(cls, [])) >= 2:
            out[key] += sum(1 for p in L['prim'] if p[0] == cls)
    busy_ops = set()                      # ops during which some R/X listener was inside its call at op start
    for c, idx, t, rid, aux, how, opi in L['exit']:
        ent = next((e for e in L['enter'] if e[0] == c and e[1] == idx and e[3] == rid and e[4] == aux), None)
        if ent is None:
            continue
        if how == 'raised':
            out['listener-raised'] += 1
        if c in ('R', 'X'):
            if opi > ent[5]:
                out['listener-suspended-across-ops'] += 1
                busy_ops.update(range(ent[5] + 1, opi + 1))
            elif specs[c][idx][0] in ('yield', 'nap', 'research'):
                out['listener-suspended-in-loop'] += 1
    for i, (op, st) in enumerate(zip(case['ops'], tr['steps'])):
        if op[0] == 'resume' and st.get('told'):
            out['resume-told-next'] += 1
        if i not in busy_ops:
            continue
        if op[0] in ('remove', 'removeobj'):
            out['remove'] += 1
        elif op[0] in ('reply', 'greply'):
            out['reply'] += 1
        elif op[0] == 'stop':
            out['stop'] += 1
        elif op[0] in ('wlmsg', 'wlclose'):
            out['wishlist-cancelled'] += 1
        elif op[0] in ('tcancel', 'tresched'):
            out['timer-op'] += 1
        elif op[0] in ('sleep', 'jump') and op[1] > 0:
            out['time-passed'] += 1
    out['search-again'] = sum(1 for e in L['enter'] if e[0] == 'X' and specs['X'][e[1]][0] == 'research')
    return out


def _iter_stats(case, tr) -> dict:
    """`iter` family: in which loop iteration after the clock was moved did what happen (0 = before the loop ran)"""
    out: dict = {}
    j = None
    for op, st in zip(case['ops'], tr['steps']):
        if op[0] == 'jump':
            j = 0
        elif op[0] == 'tick':
            if any(e[1] == 'X' for e in st['events']):
                out['removal-in-a-single-iteration'] = out.get('removal-in-a-single-iteration', 0) + 1
            if j is not None:
                j += 1
        elif op[0] in ('sleep', 'resume'):
            j = None
        elif j is not None and op[0] not in ('gate',):
            hit = st['ret'] in ('armed', 'removed') or (op[0] == 'reply' and any(e[1] == 'R' for e in st['events']))
            key = f'{op[0]}@{min(j, 6)}' + ('' if hit or op[0] in ('wlmsg', 'wlclose', 'stop', 'search') else '(stale)')
            out[key] = out.get(key, 0) + 1
    return out


def _setup_stats(case, tr) -> dict:
    """`setup` family: what happened while at least one request was suspended in the send of its set-up"""
    out: dict = {}
    for op, st in zip(case['ops'], tr['steps']):
        if not st.get('insetup_before'):
            continue
        k = op[0]
        if k in ('sendok', 'sendfail', 'ccancel') and st['ret'] == 'nosetup':
            continue
        if k in ('remove', 'removeobj', 'reply', 'tcancel', 'tresched') and op[1] not in st['insetup_before']:
            k += '(other)'
        if k in ('sleep', 'jump') and not op[1]:
            k += '(0)'
        out[k] = out.get(k, 0) + 1
    return out


class C18(Property):
    id = 'C18'
    props_module = 'AioslskVerif.Props.C18'
    driver_module = 'AioslskVerif.Driver.C18'
    rule = ('op sequences of 2..12 ops over {search net/room/user, WishlistInterval message, server closing, '
            'remove_request, PeerSearchReply (live / stale / unknown / duplicate tickets), Timer.cancel, '
            'Timer.reschedule, clock jump, loop run for d s}, request_timeout in {-1,0,1..8}, '
            'wishlist_request_timeout in {-1 (server interval),0,1..7}, 0-3 wishlist items, ticket generator started '
            'at 1 or just below 2^32; plus every order of removal / reply / expiry at the instant of the timeout; '
            'plus a MONITOR-ONLY family (n/5 cases, not compared with the model) in which the reply handler is '
            'suspended in connection.disconnect() while the request is removed / times out / is answered again; '
            'and a second MONITOR-ONLY family (n/5) around the SearchRequestSentEvent notification: a slow async '
            'sent-listener (search call / wishlist task suspended inside emit) while the request is removed, a '
            'WishlistInterval message or server close cancels the wishlist task, a reply arrives or time passes; or a '
            'sent-listener that removes the request it is told about; '
            'a third MONITOR-ONLY family `multi` (n/4): 0-3 EXTRA listeners per event class (sent / result / removed) '
            'behind the recorder — plain, async, suspending for 1-3 loop iterations, for 1-4 s, until the schedule '
            'releases them, raising, removing the request on a result, searching again on a removal — with searches '
            'and replies as tasks, remove_request by ticket and by object, replies, WishlistInterval / server close, '
            'Timer.cancel / reschedule, stop() and time passing while an event is handed from listener to listener; '
            'every result / removal seen by the first listener must reach every other listener of its class exactly '
            'once and no listener may be aborted (CancelledError); '
            'and a MODELLED family `notify` (n/5, compared with Search.nstep): 1-3 extra removal listeners that wait '
            'for `resume <ticket>` (one listener returns, the loop runs), over the random / same-instant op mix plus '
            'remove_request(<object>) and stop(); '
            'a MODELLED family `iter` (n/5 + 195 fixed, op `tick` = ONE loop iteration, compared with Search.step after '
            'every single iteration): the clock is put on / next to the deadline of a timer (request_timeout, server '
            'wishlist interval, own wishlist timeout; possibly re-armed before), the loop runs 0-5 single iterations, then '
            'Timer.cancel / reschedule / remove_request by ticket or by object / a reply / a WishlistInterval message / '
            'server closing / stop() / another search happens, then more single iterations and further events — every '
            'action in every iteration -1..+4 around the iteration in which the sleep of the timer is over, also with two '
            'timers or a wishlist round due in the same iteration; '
            'a MODELLED family `setup` (n/5 + 102 fixed, ops `gate`, `sendok`, `sendfail`, `ccancel`): '
            'send_server_messages suspends; search / room / user / wishlist requests are caught between the ticket draw '
            'and the registration while the send is released, fails (ConnectionWriteError), the owner is cancelled (the '
            'caller\'s task; the wishlist task through a WishlistInterval message, server closing, stop()) — before or after '
            'the network answered —, the user removes the ticket, a reply with it arrives, time passes, other timers '
            'expire, the gate opens; '
            'a MODELLED family `relogin` (n/5 + 47 fixed, ops `sessdown` = SessionDestroyedEvent, `sessup` = '
            'SessionInitializedEvent): the server session is lost and the client logs in again 1-3 times while requests '
            'are alive (no timeout, timeouts 3..30 s, wishlist requests with the server interval or an own timeout, a '
            'request suspended in the send of its set-up when the session goes); in every session searches of the three '
            'kinds, wishlist rounds, replies for tickets of this and of earlier sessions, removals by ticket / by object, '
            'Timer.cancel / reschedule, single iterations, time passing; also while logged out; the events around a loss '
            'come in the client\'s order (CLOSING, SessionDestroyed, SessionInitialized, WishlistInterval); '
            'derived from VERIF_SEED. Non-trivial: at least one timeout removal happened AND a reply/removal hit a '
            'ticket that was registered earlier, or a removal / cancel / re-arm hit an armed timer; distinct = '
            'distinct canonical case; a gated case is non-trivial when a removal, a timeout or another reply '
            'happened while a handler was suspended; a multi / notify case is non-trivial when a listener really '
            'suspended while a result / removal went to >= 2 extra listeners (or a `resume` made the next listener '
            'be told); an iter case is non-trivial when a removal happened and an action hit a live request / armed '
            'timer at a counted iteration offset; a setup case when a failure, a cancellation, a removal or a reply '
            'happened while a request was suspended in its set-up; a relogin case when a request that was registered '
            'at a session loss was still registered when a request of a later session was announced AND was answered or '
            'timed out after that login')
    assumptions = [
        'send_server_messages of the network stub returns at once or — while the schedule has closed the gate — '
        'suspends until released / failed / its owner is cancelled (modelled: State.pending); send_peer_messages and '
        'the shares/upload stubs do not suspend; a gated search*() call runs as an eagerly started task of the '
        'application (= `await search()` inside an application coroutine, up to the first suspension)',
        'one `tick` is one iteration of the loop as seen by a task that is queued BEHIND the wake-ups that became due '
        '(`jump` queues the due wake-ups, as the loop does at the start of its next iteration): every timer phase '
        '(created -> sleeping -> woken -> callback) and every cancellation takes exactly one tick; an observer queued '
        'ahead of them would see one extra phase in which nothing differs (the wake-up is queued but not delivered)',
        'an injected send failure ends the wishlist task (BackgroundTask.runner does not catch; it is restarted by the '
        'next WishlistInterval message) — exercised and modelled, not judged: C18 says nothing about the round itself',
        'listener delivery: the Lean model (Search.nstep) covers SearchRequestRemovedEvent — the timer task stays '
        'alive while EventBus.emit hands the event from listener to listener, any op may happen in between, '
        'Timer.cancel is reachable through the registry only; result and sent events with several / suspending '
        'listeners are exercised by the monitor-only `multi` family (their emitting task — a connection reader, the '
        'caller, the wishlist task — is not the search manager\'s to cancel, except the wishlist task, whose '
        'cancellation may legitimately cut a SearchRequestSentEvent delivery short: sent events are not judged per '
        'listener)',
        'a listener behind a suspended listener is told late by construction of EventBus.emit; "at the timeout" / '
        '"iff registered" are judged at the moment of the emission (= the first listener), "exactly once" per listener',
        'timeouts and clock readings are whole seconds (the settings are ints); float timeouts passed to '
        'Timer.reschedule by a user are not generated',
        'Timer objects are only reached through SearchManager.requests (cancel / reschedule of the Timer of an '
        'already removed request — e.g. through the SearchRequest object kept by the caller while its removal is '
        'being reported —, or a second Timer.start(), are API misuse outside the property)',
        'stop(): modelled as the derived op list Search.stopOps (Timer.cancel of every registered request + wishlist '
        'task cancelled); what else stop() owes (C16) is not judged here',
        'properties are claimed for fewer than 2^32-1 ticket draws between two live requests; the correspondence '
        'stops comparing at the first ticket re-use (the model flags it as `clobber`)',
        'suspension of / re-entrancy from SearchRequestSentEvent listeners is exercised by the monitor-only `gsent` '
        'family; the Lean model keeps search and the wishlist round atomic',
        'suspension inside connection.disconnect() of the reply handler is exercised by the monitor-only `gated` '
        'family (event order only); the Lean model keeps the handler atomic',
        'WishlistInterval(0) makes the wishlist BackgroundTask spin without sleeping; not generated, not modelled',
        'session changes (round 6): SessionDestroyedEvent is generated only after ConnectionStateChangedEvent(CLOSING) of '
        'the server connection (client.py emits it on CLOSED; the wishlist task is therefore not running while logged '
        'out) and a WishlistInterval message only while logged in; search*() while logged out is generated (the stub '
        'network accepts or — gated — fails the send); the harness wraps whatever object is SearchManager.'
        '_ticket_generator after every op, so draws stay counted if the code replaces its generator',
    ]
    modelled = ('search/manager.py: search, search_room, search_user, _wishlist_job, _get_wishlist_request_timeout, '
                '_attach_request_timer_and_emit, _timeout_search_request, remove_request, _on_peer_search_reply '
                '(ticket lookup, store_results), _on_wish_list_interval, _on_state_changed; tasks.py: Timer '
                '(start/cancel/reschedule/runner/_unset_task), BackgroundTask as used for the wishlist job; '
                'utils.ticket_generator (shape checked by the translator); events.py: EventBus.emit as used for '
                'SearchRequestRemovedEvent (listeners called in order inside the timer task, CancelledError not '
                'caught) — Search.nstep; stop() as far as timers / the wishlist task go (Search.stopOps); '
                'round 4: the phases of a Timer.runner task per loop iteration (Search.tick / wakeTask: created, '
                'sleeping, woken, callback; cancel in any phase) and of the wishlist task; the set-up of a request '
                'around `await send_server_messages` in search / search_room / search_user / _wishlist_job '
                '(Search.beginSetup / register / completeOne / roundGo, cancelWishlist); '
                'round 6: _on_session_destroyed / _on_session_initialized (State.session; the ticket generator, the '
                'registry, the timers, set-ups in progress and wishlist_interval survive); '
                'not modelled: incoming searches (_query_shares_and_reply), listener delivery of result / sent events '
                '(monitor-only), asyncio itself (the ready queue order inside one iteration)')

    def regenerate(self):
        return [search_constants.generate(common.REPO, common.LEAN)]

    def _cases(self, seed, tier, widen):
        rng = random.Random(f'C18-{seed}')
        n = (4000 if tier == "quick" else 60000) * widen
        cases = _fixed_cases() + [W_REMOVE, W_REARM, W_WLMSG]
        for _ in range(n):
            cases.append(_gen_instant(rng) if rng.random() < 0.4 else _gen_random(rng))
        # monitor-only family (own PRNG stream so that the modelled cases above stay what they were)
        rng2 = random.Random(f'C18-gated-{seed}')
        cases += _fixed_gated() + [_gen_gated(rng2) for _ in range(n // 5)]
        rng3 = random.Random(f'C18-gsent-{seed}')
        cases += _fixed_gsent() + [_gen_gsent(rng3) for _ in range(n // 5)]
        rng4 = random.Random(f'C18-multi-{seed}')
        cases += _fixed_multi() + [_gen_multi(rng4) for _ in range(n // 4)]
        rng5 = random.Random(f'C18-notify-{seed}')
        cases += _fixed_notify() + [_gen_notify(rng5) for _ in range(n // 5)]
        rng6 = random.Random(f'C18-iter-{seed}')
        cases += _fixed_iter() + [_gen_iter(rng6) for _ in range(n // 5)]
        rng7 = random.Random(f'C18-setup-{seed}')
        cases += _fixed_setup() + [_gen_setup(rng7) for _ in range(n // 5)]
        rng8 = random.Random(f'C18-relogin-{seed}')
        cases += _fixed_relogin() + [_gen_relogin(rng8) for _ in range(n // 5)]
        return cases

    def correspondence(self, seed, tier, model_ok, widen=1):
        res = KResult()
        cases = self._cases(seed, tier, widen)
        impl = common.parallel_map(_eval_case, cases)
        model = None
        if model_ok:
            lines, spans = [], []
            for c in cases:
                ls = _model_lines(c) if c['kind'] not in MONITOR_ONLY else []
                spans.append((len(lines), len(ls)))
                lines += ls
            out = common.run_driver(self.driver_file, lines)
            model = [out[a:a + k] for a, k in spans]
        else:
            res.model_available = False
        for i, c in enumerate(cases):
            tr = impl[i]
            res.evaluations += 1
            res.count('kind:' + c['kind'])
            res.count('ops', len(c['ops']))
            for op in c['ops']:
                res.count('op:' + op[0])
            for st in tr['steps']:
                for e in st['events']:
                    res.count('event:' + {'S': 'sent', 'X': 'timeout-removed', 'R': 'result', 'U': 'removed-by-a-listener'}[e[1]])
                if st['ret']:
                    res.count('ret:' + st['ret'])
                if st['clobber']:
                    res.count('ticket-reuse(out of scope)')
            res.count('timeout:request=' + ('off' if c['cfg']['rt'] <= 0 else 'on'))
            res.count('timeout:wishlist=' + ('server' if c['cfg']['wt'] < 0 else 'off' if c['cfg']['wt'] == 0 else 'own'))
            if c['cfg']['initial'] != 1:
                res.count('generator-near-wrap')
            if c['kind'] in ('multi', 'notify'):
                fam = c['kind']
                g = _multi_stats(c, tr)
                for key, v in g.items():
                    if v:
                        res.count(f'{fam}:' + key, v)
                for cls, sp in (c['cfg'].get('lis') or {}).items():
                    for x in sp:
                        res.count(f'{fam}-listener:{cls}:{x[0]}')
                if (g['listener-suspended-across-ops'] or g['listener-suspended-in-loop']) and \
                        (g['removal-to-several-listeners'] or g['result-to-several-listeners'] or g['resume-told-next']):
                    res.nontrivial_keys.add(common.sha([c['cfg'], c['ops']]))
                    res.count(f'{fam}-nontrivial')
            if c['kind'] == 'multi':
                res.count('multi:' + c.get('what', ''))
                res.violations += _monitor(c, tr)
                continue
            if c['kind'] in MONITOR_ONLY:
                fam = c['kind']
                res.count(f'{fam}:' + c.get('what', ''))
                g = _gated_stats(c, tr)
                for key, v in g.items():
                    if v:
                        res.count(f'{fam}-while-suspended:' + key, v)
                if any(g.values()):
                    res.nontrivial_keys.add(common.sha([c['cfg'], c['ops']]))
                    res.count(f'{fam}-nontrivial')
                res.violations += _monitor(c, tr)
                continue
            if c['kind'] == 'iter':
                g = _iter_stats(c, tr)
                for key, v in g.items():
                    res.count('iter:' + key, v)
                if any('@' in key and not key.endswith('(stale)') for key in g) and any(
                        e[1] == 'X' for st in tr['steps'] for e in st['events']):
                    res.nontrivial_keys.add(common.sha([c['cfg'], c['ops']]))
                    res.count('iter-nontrivial')
            elif c['kind'] == 'setup':
                g = _setup_stats(c, tr)
                for key, v in g.items():
                    res.count('setup-while-suspended:' + key, v)
                if any(key.split('(')[0] in ('sendfail', 'ccancel', 'wlmsg', 'wlclose', 'stop', 'remove', 'removeobj', 'reply')
                       and not key.endswith('(other)') for key in g):
                    res.nontrivial_keys.add(common.sha([c['cfg'], c['ops']]))
                    res.count('setup-nontrivial')
            elif c['kind'] == 'relogin':
                g = _relogin_stats(c, tr)
                for key, v in g.items():
                    res.count('relogin:' + key, v)
                if g.get('new-request-beside-survivor') and (g.get('survivor-answered-after-login') or
                                                             g.get('survivor-timed-out-after-login')):
                    res.nontrivial_keys.add(common.sha([c['cfg'], c['ops']]))
                    res.count('relogin-nontrivial')
            elif c['kind'] != 'notify' and _nontrivial(c, tr):
                res.nontrivial_keys.add(common.sha([c['cfg'], c['ops']]))
            il = _impl_lines(tr)
            if model is not None:
                res.traces_validated += 1
                ml = model[i]
                # compare up to (excluding) the first op at which a live ticket is re-used
                cut = next((j for j, l in enumerate(ml) if l.split(' |')[0].endswith('clobber')), None)
                cut_i = next((j for j, l in enumerate(il) if l.split(' |')[0].endswith('clobber')), None)
                # (which of two things due at one instant runs first is not fixed by asyncio; once tickets repeat,
                #  "expiry then new request" and "new request then expiry" differ — the monitor judges re-use)
                cuts = [x for x in (cut, cut_i) if x is not None]
                a, b = (ml[:min(cuts)], il[:min(cuts)]) if cuts else (ml, il)
                if a != b:
                    k = next((j for j, (x, y) in enumerate(zip(a, b)) if x != y), min(len(a), len(b)))
                    res.disagreements.append(Disagreement(
                        c, b[k] if k < len(b) else None, a[k] if k < len(a) else None,
                        f'line #{k} (op {c["ops"][k - 1] if 0 < k <= len(c["ops"]) else "new/end"})'))
            res.violations += _monitor(c, tr)
            if len(res.samples) < 3 and c['kind'] == 'instant' and _nontrivial(c, tr):
                res.samples.append({'case': c, 'impl': il})
            if c['kind'] == 'notify' and not any(s_['case']['kind'] == 'notify' for s_ in res.samples) and \
                    _multi_stats(c, tr)['resume-told-next'] >= 2 and len(c['ops']) <= 14:
                res.samples.append({'case': c, 'impl': il})
        return res

    def replay(self, case):
        return _monitor(case, _eval_case(case))

    def known_witnesses(self):
        return [('C18-timer-error-after-remove', W_REMOVE), ('C18-cancelled-timer-fired', W_REARM),
                ('C18-op-raised-CancelledError', W_WLMSG)]


PROPERTY = C18()
