"""C06 — after abort / pause / remove returns, nothing more happens for that transfer.

Correspondence K_C06 + monitor (DESIGN.md, C06).

The REAL `TransferManager` (real management job, Transfer / state classes) runs on `SimLoop` against
the scripted collaborators of `vlib/xferrig.py`: every network step a transfer task takes (peer
connection + PeerTransferQueue / PeerTransferRequest, reply, file connection, ticket, offset, file)
is a gate that hangs until the schedule lets it succeed or fail.  A case is a list of ops, each
preceded by a virtual delay:

    ['addDownload', u, dt] ['addUpload', u, dt] ['poke', dt]              (poke = any event that requests a cycle)
    ['net', k, outcome, poke, dt]      the pending network step of transfer k's task ends: ok | fail-conn | fail-write
                                       (remote queue) / toQueue | fail | transferring | complete | step (upload initialisation;
                                       `step` = only the step it hangs at succeeds: request delivered -> the peer's reply
                                       -> file connection -> ticket -> offset -> file) /
                                       toQueue | timeout | transferring | incomplete | complete (download initialisation: the
                                       file connection is delivered, breaks -> INCOMPLETE, or delivers everything);
                                       poke=True requests a cycle in the same step (cycle between task end and callback)
    ['addFailed', u, dt]               a download in FAILED state without a fail reason, added the way `read_cache` adds a
                                       cached one: `_get_queued_transfers` retries it with remote-queue attempts
    ['preq', k, dt]                    the peer sends PeerTransferRequest for download k
    ['call', k, abort|pause|remove, poke_after|None, during?, dt]   the call runs as its own task; a cycle request is made
                                       `poke_after` loop iterations later (i.e. while the call waits for its tasks);
                                       `during` (optional) = [[kind, n], ...]: kind in poke | preq | peerfail | upfail is
                                       delivered for transfer k `n` loop iterations after the call started, i.e. in the same
                                       step as / while the call is suspended (or just after it returned)
    ['requeue', k, dt] ['wait', dt]
    ['peerfail', k, dt]                the peer answers PeerTransferQueueFailed for download k (`state.fail(reason)`, cancels nothing)
    ['upfail', k, dt]                  the peer sends PeerUploadFailed for download k (`remotely_queued = False` + cycle request)
    ['block'|'unblock', u, then?, dt] ['unshare'|'reshare', k, then?, dt]   the user changes the block list / the shares:
                                       the real `manage_shares_changed` re-evaluates every upload (monitor-only cases, no
                                       model); `then` (optional) = [[k, abort|pause|remove, n], ...]: that call is made n loop
                                       iterations later, i.e. while the re-evaluation is being carried out

    ['upq', k, then?, dt]              the peer sends PeerTransferQueue for upload k (again): FAILED / COMPLETE -> QUEUED; the
                                       handler finds the transfer, asks the shares manager (suspends `share_delay`
                                       iterations) and only then decides; `then` as above: calls made while it is suspended
    ['upreq', k, then?, dt] ['placereq', k, dt] ['placereply', k, dt]   PeerTransferRequest(direction=upload) /
                                       PeerPlaceInQueueRequest for upload k, PeerPlaceInQueueReply for download k
    ['status', u, dt]                  the server reports peer u offline: `remotely_queued` of its downloads reset + cycle
    ['aux', k, ok|fail, dt]            (cases with `aux`) the connection needed by the oldest pending message about transfer
                                       k that is NOT part of the negotiation (PeerUploadFailed after a write error, ...) is
                                       established / fails; until then that message hangs like any other network step

Every peer / server message is delivered as a `MessageReceivedEvent` on the event bus (the manager's own dispatch), the file
connection of a download as a `PeerInitializedEvent`.

Case options: `teardown` = loop iterations a CANCELLED network step needs to unwind, `exec_delay` = loop iterations an
executor call (aiofiles: removal of the local file under the state lock, ...) takes; both widen the window between the
cancellation and the return of the call.  `share_delay` = loop iterations the shares manager takes to look a file up (the
real one asks the file system through the executor): handlers that look at the transfer first and ask then are suspended
in between.  `aux` = messages outside the negotiation need a (slow) connection too.

Inventory.  Every task of the loop is created through the run's task factory, which notes the creation site (innermost
library frame), the creating task and what the coroutine was given; a live task the LIBRARY created is attributed to the
transfer its arguments name (Transfer / state object / message or strings naming user and file) or that its creator works
for.  Remote-queue attempts and initialisations are recognised by the coroutine they run (not by task name or slot); every
other library task working for a transfer is listed as work outside its slots.  Frames and connection attempts are attributed
by the file they name, whoever sends them.

After the last op the loop runs for 120 virtual seconds (observation window).  Cycles, task first
steps / ends / done-callbacks and call returns are logged where they happen and fed to the Lean
driver in that order.
"""
from __future__ import annotations

import asyncio
import os
import random
import sys
from typing import Any, Optional

from vlib import common, simloop
from vlib.common import KResult, Violation, Disagreement, Property

REPLIES = ('PeerTransferReply', 'PeerTransferQueueFailed', 'PeerPlaceInQueueReply')
FIELDS = ('state', 'remotely_queued', 'queue_attempts', 'bytes_transfered', 'local_path', 'fail_reason', 'abort_reason',
          'start_time', 'complete_time', 'filesize')
WINDOW = 120.0


def _user(u: int) -> str:
    return f'peer{u}'


def _fields(t) -> list:
    return [t.state.VALUE.name, t.remotely_queued, t.queue_attempts, t.bytes_transfered, t.local_path, t.fail_reason,
            t.abort_reason, t.start_time, t.complete_time, t.filesize]


_LISTENER_ERRORS: list = []


def _listener_errors() -> list:
    """Exceptions the event bus caught in a listener (`logger.exception` in `EventBus.emit`), collected by a logging handler
    that is installed once per process."""
    import logging
    lg = logging.getLogger('aioslsk.events')
    if not any(getattr(h, '_c06', False) for h in lg.handlers):
        class H(logging.Handler):
            _c06 = True

            def emit(self, record):
                exc = record.exc_info[1] if record.exc_info else None
                _LISTENER_ERRORS.append(f'{type(exc).__name__}: {exc}' if exc is not None else record.getMessage())

        lg.addHandler(H())
        lg.propagate = False
    lg.setLevel(logging.ERROR)
    return _LISTENER_ERRORS


class _Run:
    """One execution of a case on the real manager."""

    def __init__(self, loop, case):
        from vlib.xferrig import Rig
        self.loop = loop
        self.case = case
        self.rig = Rig(loop, slots=case.get('slots', 3), teardown=case.get('teardown', 0),
                       aux_gates=bool(case.get('aux', False)), share_delay=case.get('share_delay', 0))
        self.mgr = self.rig.mgr
        self.meta: dict = {}                # task -> how / on whose behalf it was created (inventory of library tasks)
        self.op_k: dict = {}                # harness task delivering a user / peer action -> transfer index
        self._log_seen = 0
        loop.set_task_factory(self._task_factory)
        self.ev: list = []                  # events for the model, in order
        self.task_k: dict[str, int] = {}    # task name -> transfer index
        self.task_kind: dict[str, str] = {}
        self.task_obj: dict[str, Any] = {}
        self.started: set = set()
        self.pending_call: dict[int, str] = {}
        self.quiet: dict[int, bool] = {}
        self.calls: list = []
        self.initialized: set = set()       # names of initialisation tasks whose `state.initialize()` was granted
        self.snaps: list = []               # (event index, snapshot string, per-transfer fields, live map)
        self._wrap()

    # -- inventory of tasks (whoever creates them) ------------------------------------------------------------------
    def _task_factory(self, loop, coro, **kw):
        """Every task of the loop is created here.  Noted per task: the creation site (innermost frame of the library on
        the stack; None = created by the harness itself), the task that created it and what its coroutine was given
        (a Transfer, a state object, a message naming a file, user name / remote path strings)."""
        task = asyncio.Task(coro, loop=loop, **kw)
        site, via = None, []
        f = sys._getframe(1)
        while f is not None:
            fn = f.f_code.co_filename
            if fn.endswith('c06.py') or os.sep + 'vlib' + os.sep in fn:
                break                                                  # the harness's own tasks
            if os.sep + 'aioslsk' + os.sep in fn:
                site = f'{os.path.basename(fn)}:{f.f_code.co_name}'
                break
            via.append(f.f_code.co_name)
            f = f.f_back
        try:
            parent = asyncio.current_task(loop)
        except RuntimeError:
            parent = None
        refs: list = []
        fr = getattr(coro, 'cr_frame', None)
        if site is not None and fr is not None:
            def note(v, depth=0):
                if isinstance(v, str):
                    refs.append(('str', v))
                elif type(v).__name__ == 'Transfer':
                    refs.append(('transfer', v))
                elif type(getattr(v, 'transfer', None)).__name__ == 'Transfer':
                    refs.append(('transfer', v.transfer))              # a state object / a bound state method's owner
                elif type(getattr(getattr(v, '__self__', None), 'transfer', None)).__name__ == 'Transfer':
                    refs.append(('transfer', v.__self__.transfer))
                elif isinstance(getattr(v, 'filename', None), str):
                    refs.append(('str', v.filename))                   # a protocol message naming a file
                elif isinstance(v, (tuple, list)) and depth < 2:
                    for y in v[:8]:
                        note(y, depth + 1)
                elif isinstance(v, dict) and depth < 2:
                    for y in list(v.values())[:8]:
                        note(y, depth + 1)
            for name, v in list(fr.f_locals.items()):
                if name != 'self':
                    note(v)
        self.meta[task] = {'site': site, 'via': via[:4], 'parent': parent, 'refs': refs,
                           'code': getattr(getattr(coro, 'cr_code', None), 'co_name', None)}
        return task

    def listed(self, t) -> bool:
        """`t` itself is in the manager's list (`in` compares by user / path / direction: an equal NEW transfer would do)"""
        return any(x is t for x in self.mgr._transfers)

    def owner_of(self, task, depth: int = 0) -> Optional[int]:
        """index of the transfer a library task works for: the slot it was put in, what its coroutine was given, or the
        task / the user or peer action that created it"""
        name = task.get_name()
        if name in self.task_k:
            return self.task_k[name]
        m = self.meta.get(task)
        if m is None:
            return None
        if 'k' in m:
            return m['k']
        k = None
        strs = {v for kind, v in m['refs'] if kind == 'str'}
        for kind, v in m['refs']:
            if kind == 'transfer':
                k = self.rig.k_of(v)
                if k is not None:
                    break
        if k is None and strs:
            cands = [i for i, t in enumerate(self.rig.transfers) if t.remote_path in strs]
            named = [i for i in cands if self.rig.transfers[i].username in strs]
            cands = named or cands
            if cands:
                k = next((i for i in cands if self.listed(self.rig.transfers[i])), cands[-1])
        if k is None and m['parent'] is not None and depth < 8:
            par = m['parent']
            if par in self.op_k:
                k = self.op_k[par]
            elif (self.meta.get(par) or {}).get('site') is not None:
                k = self.owner_of(par, depth + 1)
        m['k'] = k
        return k

    def negotiation_kind(self, task) -> Optional[str]:
        """'Q' / 'T' when the task runs a remote-queue attempt / an initialisation, whatever its name and whoever made it"""
        name = task.get_name()
        if name in self.task_kind:
            return self.task_kind[name]
        if name.startswith('queue-remotely-'):
            return 'Q'
        if name.startswith('initialize-'):
            return 'T'
        coro = task.get_coro()
        for _ in range(12):
            code = getattr(getattr(coro, 'cr_code', None), 'co_name', None)
            if code == '_queue_remotely':
                return 'Q'
            if code in ('_initialize_upload', '_initialize_download'):
                return 'T'
            coro = getattr(coro, 'cr_await', None)
            if coro is None:
                break
        return None

    # -- instrumentation (from outside, nothing in the library is edited) ---------------------------------------
    def _note_new_tasks(self, before, reason):
        new = []
        for t in list(self.mgr.transfers) + [x for x in self.rig.transfers if not self.listed(x)]:
            b = before.get(id(t), (None, None))
            for slot, kind, old in (('_remotely_queue_task', 'Q', b[0]), ('_transfer_task', 'T', b[1])):
                task = getattr(t, slot)
                if task is not None and task is not old and task.get_name() not in self.task_k:
                    new.append((int(task.get_name().rsplit('-', 1)[1]), task, kind, self.rig.k_of(t)))
        new.sort(key=lambda x: x[0])
        for _n, task, kind, k in new:
            name = task.get_name()
            self.task_k[name] = k
            self.task_kind[name] = kind
            self.task_obj[name] = task
            task.add_done_callback(lambda tk, name=name: self._on_task_cb(name))
        return [(self.task_k[t.get_name()], t.get_name()) for _n, t, _k, _kk in new]

    def _on_task_cb(self, name):
        if name not in self.started:            # cancelled before its first step
            self.started.add(name)
            self.ev.append(('tstart', name))
        self.ev.append(('tcb', name))

    def _wrap(self):
        mgr, rig = self.mgr, self.rig
        inner_cycle = mgr.manage_transfers       # rig's wrapper (keeps rig.log 'cycle' entries)

        def cycle():
            before = {id(t): (t._remotely_queue_task, t._transfer_task) for t in mgr.transfers}
            inner_cycle()
            self.ev.append(('cycle', self._note_new_tasks(before, 'cycle')))

        mgr.manage_transfers = cycle

        def wrap_coro(orig, kind):
            async def wrapped(transfer, *a, **kw):
                name = asyncio.current_task().get_name()
                self.started.add(name)
                self.ev.append(('tstart', name))
                out = 'fail'
                try:
                    res = await orig(transfer, *a, **kw)
                    if kind == 'Q':
                        ctx = rig.task_ctx.get(asyncio.current_task())
                        g = rig.gate(*ctx) if ctx else None
                        out = 'ok' if (g is not None and g.outcomes.get('send') == 'ok') else 'fail'
                    elif name.startswith('initialize-download-') and name not in self.initialized \
                            and asyncio.current_task() not in rig.task_ctx:
                        # `state.initialize()` was refused and the task ended without a network step of its own
                        out = 'refused'
                    else:
                        st = transfer.state.VALUE.name
                        out = {'QUEUED': 'toQueue', 'COMPLETE': 'complete', 'INCOMPLETE': 'incomplete'}.get(st, 'fail')
                    return res
                except asyncio.CancelledError:
                    out = 'cancelled'
                    raise
                finally:
                    self.ev.append(('tend', name, out))
            return wrapped

        orig_shares = mgr.manage_shares_changed

        async def shares_changed():
            # the re-evaluation of the uploads after a block list / shares change: its transitions only run in later
            # loop iterations; logged when all of them are through
            try:
                await orig_shares()
            finally:
                self.ev.append(('shares-done', 'done', [i for i, x in enumerate(rig.transfers) if x.is_upload()],
                                len(rig.log)))

        mgr.manage_shares_changed = shares_changed
        mgr._queue_remotely = wrap_coro(mgr._queue_remotely, 'Q')
        mgr._initialize_upload = wrap_coro(mgr._initialize_upload, 'T')
        mgr._initialize_download = wrap_coro(mgr._initialize_download, 'T')
        run = self

        class Listener:
            async def on_transfer_state_changed(self, transfer, old, new):
                if new.name in ('UPLOADING', 'DOWNLOADING'):
                    tk = transfer._transfer_task
                    if tk is not None:
                        run.ev.append(('tend', tk.get_name(), 'transferring'))
                if new.name == 'INITIALIZING':
                    run.initialized.add(asyncio.current_task().get_name())
                if new.name == 'FAILED':
                    # `state.fail()` called by the transfer's own task, which is not over yet (an upload that hit a
                    # write error still has to tell the peer: PeerUploadFailed over a connection that may be slow)
                    cur = asyncio.current_task().get_name()
                    if run.task_k.get(cur) == run.rig.k_of(transfer):
                        run.ev.append(('tend', cur, 'failing'))
                if new.name == 'ABORTED':
                    k = run.rig.k_of(transfer)
                    if run.pending_call.get(k) == 'remove':
                        # the abort inside remove() got through: in the same step remove() takes the transfer off the
                        # list and cancels whatever the slots hold by now
                        run.ev.append(('rmid', k))

        self._listener = Listener()

    def adopt(self, t):
        self.rig.adopt(t)
        t.state_listeners.append(self._listener)

    # -- ops ----------------------------------------------------------------------------------------------------------
    async def deliver(self, message, connection):
        """A message arrives: `MessageReceivedEvent` on the event bus, as the network emits it (the manager dispatches it to
        its handler and the emission returns when the handler is through).  The bus logs an exception raised by a
        listener and goes on: it is picked up from the log and raised here."""
        from aioslsk.events import MessageReceivedEvent
        sink = _listener_errors()
        n = len(sink)
        await self.rig.bus.emit(MessageReceivedEvent(message=message, connection=connection))
        if len(sink) > n:
            raise RuntimeError('exception in a message handler: ' + sink[-1])

    async def poke(self):
        from aioslsk.protocol.messages import AddUser
        await self.deliver(AddUser.Response('nobody', exists=False), None)

    async def _do_call(self, k: int, c: str):
        """abort / pause / remove of transfer k, from the first step to the return (events `call`, `resume` / `call-refused`)"""
        from aioslsk.exceptions import InvalidStateTransition, TransferNotFoundError
        mgr, rig = self.mgr, self.rig
        t = rig.transfers[k]
        self.pending_call[k] = c
        self.ev.append(('call', k, c, t.state.VALUE.name, len(self.live_tasks().get(k, [])),
                        len(rig.aux_pending.get(k) or []), len(rig.log)))
        try:
            if c == 'abort':
                await mgr.abort(t)
            elif c == 'pause':
                await mgr.pause(t)
            else:
                await mgr.remove(t)
        except (InvalidStateTransition, TransferNotFoundError):
            self.ev.append(('call-refused', k, c))
            return
        finally:
            self.pending_call.pop(k, None)
        self.quiet[k] = True
        self.ev.append(('resume', k, c, _fields(t), len(rig.log)))

    def _then_calls(self, then: list):
        async def later(k, c, n):
            for _ in range(n):
                await asyncio.sleep(0)
            if k >= len(self.rig.transfers) or k in self.pending_call or not self.listed(self.rig.transfers[k]):
                return
            self.ev.append(('op', 'call'))
            await self._do_call(k, c)

        for k, c, n in then:
            self.calls.append(asyncio.ensure_future(later(k, c, n)))

    async def perform(self, body: list):
        from aioslsk.exceptions import InvalidStateTransition, TransferNotFoundError
        from aioslsk.protocol.messages import PeerTransferQueue, PeerTransferRequest
        from vlib.xferrig import FakeConn
        mgr, rig = self.mgr, self.rig
        kind = body[0]
        self.op_k.pop(asyncio.current_task(), None)
        if kind == 'wait':
            return
        if kind == 'poke':
            await self.poke()
            return
        if kind == 'addDownload':
            t = await mgr.download(_user(body[1]), f'f{len(rig.transfers)}')
            self.adopt(t)
            self.ev.append(('addDownload',))
            return
        if kind == 'addUpload':
            await self.deliver(PeerTransferQueue.Request(f'f{len(rig.transfers)}'), FakeConn(rig, _user(body[1])))
            self.adopt(mgr.transfers[-1])
            self.ev.append(('addUpload',))
            return
        if kind == 'addFailed':
            # what `TransferManager.read_cache` does with a cached download that failed without a reason
            from aioslsk.transfer.model import Transfer, TransferDirection
            from aioslsk.transfer.state import TransferState
            t = Transfer(_user(body[1]), f'f{len(rig.transfers)}', TransferDirection.DOWNLOAD)
            t.state = TransferState.init_from_state(TransferState.FAILED, t)
            t = await mgr.add(t)
            self.adopt(t)
            self.ev.append(('addFailed',))
            return
        if kind in ('block', 'unblock'):
            from aioslsk.events import BlockListChangedEvent
            from aioslsk.user.model import BlockingFlag
            u = _user(body[1])
            blocked = rig.settings.users.blocked
            old = blocked.get(u, BlockingFlag.NONE)
            if kind == 'block':
                blocked[u] = BlockingFlag.UPLOADS
            else:
                blocked.pop(u, None)
            new = blocked.get(u, BlockingFlag.NONE)
            self.ev.append(('shares', kind, [i for i, x in enumerate(rig.transfers) if x.username == u and x.is_upload()],
                            len(rig.log)))
            await rig.bus.emit(BlockListChangedEvent({u: (old, new)}))
            self._then_calls(body[2] if len(body) > 2 else [])
            return
        if kind in ('unshare', 'reshare'):
            from aioslsk.events import ScanCompleteEvent
            k = body[1]
            if k >= len(rig.transfers):
                return
            t = rig.transfers[k]
            (rig.unshared.add if kind == 'unshare' else rig.unshared.discard)(t.remote_path)
            self.ev.append(('shares', kind, [i for i, x in enumerate(rig.transfers)
                                             if x.remote_path == t.remote_path and x.is_upload()], len(rig.log)))
            await rig.bus.emit(ScanCompleteEvent(0, 0))
            self._then_calls(body[2] if len(body) > 2 else [])
            return
        if kind == 'status':
            # the server reports the peer offline (and online again): `remotely_queued` of every download from that peer
            # is reset and a cycle requested (`_on_get_user_status`)
            from aioslsk.protocol.messages import GetUserStatus
            from aioslsk.user.model import UserStatus
            u = _user(body[1])
            ks = [i for i, x in enumerate(rig.transfers) if x.username == u and x.is_download() and self.listed(x)]
            await self.deliver(GetUserStatus.Response(u, UserStatus.OFFLINE.value, False), None)
            self.ev.append(('status', body[1], ks, len(rig.log)))
            return
        k = body[1]
        if k >= len(rig.transfers):
            return
        t = rig.transfers[k]
        if kind in ('upq', 'upreq', 'placereq', 'placereply', 'preq', 'peerfail', 'upfail'):
            self.op_k[asyncio.current_task()] = k       # whatever the handler starts is started for transfer k
        if kind == 'aux':
            # the connection a pending PeerUploadFailed (... any message outside the negotiation) of transfer k waits
            # for is established / fails
            cls = rig.release_aux(k, 'ok' if body[2] == 'ok' else 'fail-conn')
            if cls is not None:
                self.ev.append(('aux', k, cls, body[2], len(rig.log)))
            return
        if kind == 'upq':
            # the peer sends PeerTransferQueue for upload k (again): FAILED / COMPLETE -> QUEUED.  The handler looks the
            # transfer up, asks the shares manager (suspends `share_delay` iterations) and only then decides; `then`
            # (optional) = calls made n loop iterations later, i.e. while the handler is suspended
            if not t.is_upload() or not self.listed(t):
                return
            self._then_calls(body[2] if len(body) > 2 else [])
            before = t.state.VALUE.name
            self.ev.append(('upq-start', k, before, len(rig.log)))
            await self.deliver(PeerTransferQueue.Request(t.remote_path), FakeConn(rig, t.username))
            listed = self.listed(t)
            self.ev.append(('upq', k, before, t.state.VALUE.name, listed, len(rig.log)))
            for x in mgr._transfers:                   # the file of a transfer that left the list meanwhile: a NEW upload
                if rig.k_of(x) is None:
                    self.adopt(x)
                    self.ev.append(('addUpload',))
            return
        if kind == 'upreq':
            # the peer sends PeerTransferRequest(direction=upload) for upload k, which is in the list: always refused
            # (PeerTransferReply on the peer's connection), nothing changes
            if not t.is_upload() or not self.listed(t):
                return
            self._then_calls(body[2] if len(body) > 2 else [])
            await self.deliver(
                PeerTransferRequest.Request(direction=0, ticket=7000 + len(self.ev), filename=t.remote_path),
                FakeConn(rig, t.username))
            self.ev.append(('upreq', k, len(rig.log)))
            return
        if kind == 'placereq':
            if not t.is_upload() or not self.listed(t):
                return
            from aioslsk.protocol.messages import PeerPlaceInQueueRequest
            await self.deliver(PeerPlaceInQueueRequest.Request(t.remote_path), FakeConn(rig, t.username))
            self.ev.append(('placereq', k, len(rig.log)))
            return
        if kind == 'placereply':
            if not t.is_download() or not self.listed(t):
                return
            from aioslsk.protocol.messages import PeerPlaceInQueueReply
            await self.deliver(PeerPlaceInQueueReply.Request(t.remote_path, 3), FakeConn(rig, t.username))
            self.ev.append(('placereply', k, len(rig.log)))
            return
        if kind == 'net':
            _, _k, outcome, poke = body
            g = rig.current_gate(k)
            at = g.blocked_at() if g is not None else None
            if at is None:
                return
            akind = rig.attempt_kind.get((k, rig.attempts[k]))
            if akind == 'queue-remotely':
                g.set('send', 'ok' if outcome in ('ok', 'transferring', 'complete') else
                      'fail-write' if outcome in ('fail-write', 'toQueue') else 'fail-conn')
            elif akind == 'ul-init':
                if at == 'send':
                    plan = {'toQueue': [('send', 'fail-conn')], 'fail': [('reply', 'deny'), ('send', 'ok')],
                            'transferring': [('reply', 'allow'), ('conn', 'ok'), ('ticket', 'ok'), ('offset', 'ok'), ('send', 'ok')],
                            'complete': [('reply', 'allow'), ('conn', 'ok'), ('ticket', 'ok'), ('offset', 'ok'), ('file', 'ok'),
                                         ('send', 'ok')]}.get(outcome, [('send', 'fail-write')])
                    if outcome == 'step':
                        plan = [('send', 'ok')]            # delivered; the peer does not answer yet
                    for s_, o_ in plan:
                        g.set(s_, o_)
                elif at in ('reply', 'conn', 'ticket', 'offset'):
                    # the initialisation was let through step by step (`step`) and hangs at the peer's reply / the file
                    # connection / the ticket / the offset: this step succeeds (`step`), everything up to UPLOADING
                    # (`transferring`) or to the end (`complete`) does, or it fails (reply: refused -> FAILED, else -> QUEUED)
                    order = ['reply', 'conn', 'ticket', 'offset']
                    rest = order[order.index(at):]
                    if outcome == 'step':
                        g.set(at, 'allow' if at == 'reply' else 'ok')
                    elif outcome in ('transferring', 'complete', 'ok'):
                        if outcome == 'complete':
                            g.set('file', 'ok')
                        for s_ in reversed(rest):
                            g.set(s_, 'allow' if s_ == 'reply' else 'ok')
                    else:
                        g.set(at, 'deny' if at == 'reply' else 'fail')
                elif at == 'file':
                    g.set('file', 'ok' if outcome in ('complete', 'ok', 'step') else 'fail')
            elif akind == 'dl-init':
                o = {'ok': 'transferring', 'fail-conn': 'incomplete', 'fail-write': 'toQueue'}.get(outcome, outcome)
                if o not in ('toQueue', 'timeout', 'transferring', 'incomplete', 'complete'):
                    o = 'incomplete'
                if at == 'dreply':
                    if o == 'toQueue':
                        g.set('dreply', 'fail')                 # our PeerTransferReply cannot be written: back to QUEUED
                    elif o == 'timeout':
                        g.set('dreply', 'ok')                   # the uploader never opens the file connection (60 s)
                    else:
                        # the uploader opens the file connection; the download starts; the connection then breaks
                        # (INCOMPLETE), delivers everything (COMPLETE) or stays open (DOWNLOADING)
                        g.set('offsetmsg', 'ok')
                        if o == 'incomplete':
                            g.set('file', 'fail')
                        elif o == 'complete':
                            g.set('file', 'ok')
                        g.set('dreply', 'ok')
                        await simloop.settle()
                        rig.deliver_file_connection(k)
                elif at == 'file':
                    g.set('file', 'ok' if o in ('complete', 'transferring') else 'fail')
            if poke:
                await self.poke()
            return
        if kind == 'preq':
            if not t.is_download() or not self.listed(t):
                return
            before = {id(x): (x._remotely_queue_task, x._transfer_task) for x in mgr.transfers}
            ticket = 9000 + len(self.ev)
            rig.dl_ticket[ticket] = k
            await self.deliver(
                PeerTransferRequest.Request(direction=1, ticket=ticket, filename=t.remote_path, filesize=10),
                FakeConn(rig, t.username))
            new = self._note_new_tasks(before, 'preq')
            if new:
                self.quiet[k] = False        # a FAILED download is re-queued by the peer's request
            self.ev.append(('preq', k, new, len(rig.log)))
            return
        if kind == 'peerfail':
            # a legitimate peer message.  While a call on k holds the state lock the handler's `state.fail()` waits for
            # it (and then dispatches on the state the call left, C03); the event is logged when the handler is through
            if not t.is_download() or not self.listed(t):
                return
            from aioslsk.protocol.messages import PeerTransferQueueFailed
            before = t.state.VALUE.name
            await self.deliver(
                PeerTransferQueueFailed.Request(filename=t.remote_path, reason='File not shared.'), FakeConn(rig, t.username))
            self.ev.append(('peerfail', k, before, t.state.VALUE.name, len(rig.log)))
            return
        if kind == 'upfail':
            if not t.is_download() or not self.listed(t):
                return
            from aioslsk.protocol.messages import PeerUploadFailed
            await self.deliver(PeerUploadFailed.Request(filename=t.remote_path), FakeConn(rig, t.username))
            self.ev.append(('upfail', k, len(rig.log)))
            return
        if kind == 'requeue':
            if not self.listed(t) or t.state.VALUE.name not in ('ABORTED', 'PAUSED', 'COMPLETE', 'INCOMPLETE', 'FAILED'):
                return
            if k in self.pending_call:
                return
            await mgr.queue(t)
            self.quiet[k] = False
            self.ev.append(('requeue', k, len(rig.log)))
            return
        if kind == 'call':
            _, _k, c, poke_after = body[:4]
            during = body[4] if len(body) > 4 else []
            if k in self.pending_call or not self.listed(t):
                return

            do_call = lambda: self._do_call(k, c)

            async def poker(n):
                for _ in range(n):
                    await asyncio.sleep(0)
                await self.poke()

            async def deliver(what, n):
                for _ in range(n):
                    await asyncio.sleep(0)
                if what == 'poke':
                    await self.poke()
                elif what == 'status':
                    self.ev.append(('op', what))
                    await self.perform([what, int(t.username[4:])])
                else:
                    self.ev.append(('op', what))
                    await self.perform([what, k])

            self.calls.append(asyncio.ensure_future(do_call()))
            if poke_after is not None:
                self.calls.append(asyncio.ensure_future(poker(poke_after)))
            for what, n in during:
                self.calls.append(asyncio.ensure_future(deliver(what, n)))
            return
        raise ValueError(f'bad op {body!r}')

    # -- observation --------------------------------------------------------------------------------------------------
    def live_tasks(self) -> dict:
        """transfer index -> list of (name, kind, in_slot) of remote-queue / initialisation tasks that are not done
        (recognised by name, by slot or by the coroutine they run)"""
        res: dict = {}
        for task in asyncio.all_tasks(self.loop):
            if task.done():
                continue
            kind = self.negotiation_kind(task)
            if kind is None:
                continue
            name = task.get_name()
            if name in self.task_k:
                k = self.task_k[name]
            else:
                k = self.owner_of(task)
                if k is None:
                    coro = task.get_coro()
                    fr = getattr(coro, 'cr_frame', None)
                    tr = fr.f_locals.get('transfer') if fr is not None else None
                    k = self.rig.k_of(tr) if tr is not None else None
            t = self.rig.transfers[k] if k is not None else None
            slot = None if t is None else (t._remotely_queue_task if kind == 'Q' else t._transfer_task)
            res.setdefault(k, []).append((name, kind, slot is task))
        return res

    def other_tasks(self) -> dict:
        """transfer index -> list of (name, creation site, reachable) of every OTHER live task the library created on
        behalf of that transfer — work outside the two task slots; `reachable` = one of the transfer's slots holds it.
        The manager's own periodic jobs work for no transfer in particular."""
        res: dict = {}
        jobs = {getattr(self.mgr._management_task, '_task', None), getattr(self.mgr._progress_reporting_task, '_task', None)}
        for task in asyncio.all_tasks(self.loop):
            m = self.meta.get(task)
            if task.done() or m is None or m['site'] is None or task in jobs:
                continue
            if self.negotiation_kind(task) is not None:
                continue
            k = self.owner_of(task)
            if k is None:
                continue
            t = self.rig.transfers[k]
            res.setdefault(k, []).append((task.get_name(), m['site'], task is t._remotely_queue_task or task is t._transfer_task))
        return res

    def _attribute_log(self):
        """network activity that does not name a file (a file connection, a message without a file name) is attributed to
        the transfer the sending task works for"""
        log = self.rig.log
        by_name = None
        for i in range(self._log_seen, len(log)):
            x = log[i]
            if x[0] in ('connect', 'frame', 'fileconn') and x[1] is None:
                sender = x[4] if x[0] != 'fileconn' and len(x) > 4 else (x[3] if x[0] == 'fileconn' and len(x) > 3 else None)
                if sender is None:
                    continue
                if by_name is None:
                    by_name = {t.get_name(): t for t in self.meta}
                task = by_name.get(sender)
                if task is None or (self.meta[task]['site'] is None and task.get_name() not in self.task_k):
                    continue                               # sent from a harness task: the handler of a scripted message
                k = self.owner_of(task)
                if k is not None:
                    log[i] = (x[0], k) + tuple(x[2:])
        self._log_seen = len(log)

    def snapshot(self):
        self._attribute_log()
        live = self.live_tasks()
        ents = []
        for k, t in enumerate(self.rig.transfers):
            def sl(task):
                return 'N' if task is None else ('D' if task.done() else 'L')
            lock = {'abort': 'A', 'pause': 'P', 'remove': 'R'}.get(self.pending_call.get(k), '-')
            removed = 0 if self.listed(t) else 1
            retry = int(t.is_download() and t.state.VALUE.name == 'FAILED' and t.fail_reason is None)
            ents.append(f"{k}:{t.state.VALUE.name}:r{retry}:rq{int(bool(t.remotely_queued))}:a{t.queue_attempts}:"
                        f"Q{sl(t._remotely_queue_task)}:T{sl(t._transfer_task)}:{lock}:{removed}:"
                        f"q{int(bool(self.quiet.get(k)))}:live{len(live.get(k, []))}")
        self.snaps.append({'at': len(self.ev), 'log_at': len(self.rig.log), 'snap': ' '.join(ents),
                           'fields': [_fields(t) for t in self.rig.transfers],
                           'live': {str(k): v for k, v in live.items()},
                           'other': {str(k): v for k, v in self.other_tasks().items()},
                           'aux': {str(k): [c for _a, c in v] for k, v in self.rig.aux_pending.items() if v}})


WALL = 4.0            # per-case guard in CPU seconds (a healthy case takes a few ms); wall-clock backstop at 10x
WALL_CONFIRM = 8.0   # a guard hit is re-run once, alone, with this guard before it counts
MAX_HANGS = 2         # stop evaluating further cases after this many confirmed hangs (they are violations already)


def _run_impl(case: dict, wall: float = WALL) -> dict:
    async def main(loop):
        run = _Run(loop, case)
        await run.mgr.start()
        await simloop.settle()
        for op in case['ops']:
            *body, dt = op
            if dt > 0:
                await asyncio.sleep(dt)
            if body[0] in ('net', 'preq', 'peerfail'):
                await simloop.settle()
            run.ev.append(('op', body[0]))
            await run.perform(body)
            await simloop.settle()
            run.snapshot()
        # observation window
        for _ in range(4):
            await asyncio.sleep(WINDOW / 4)
            await simloop.settle()
            run.snapshot()
        # a call that has not returned by the end of the window never will (nothing but its own tasks can block it);
        # found in VIRTUAL time, so it costs no wall-clock time
        for k, c in sorted(run.pending_call.items()):
            run.ev.append(('call-pending', k, c))
        run.ev.append(('end-of-window',))        # what follows is the harness shutting the manager down
        for c in run.calls:
            if not c.done():
                c.cancel()
        if run.calls:
            await asyncio.wait(run.calls, timeout=10)
        tasks = [t for t in await run.mgr.stop() if t is not None]
        left = []
        if tasks:
            _done, pend = await asyncio.wait(tasks, timeout=10)          # 10 virtual seconds
            left = sorted(t.get_name() for t in pend)
            for t in pend:
                t.cancel()
            if pend:
                await asyncio.wait(pend, timeout=10)
        run.rig.cleanup()
        return {'ev': [list(e) for e in run.ev], 'snaps': run.snaps, 'log': [list(e) for e in run.rig.log],
                'granularity': run.rig.granularity, 'stop_left': left}

    res, loop = _guarded_run(main, wall, case.get('exec_delay', 0))
    res['loop_exceptions'] = [e for e in loop.exceptions if e.get('type') not in (None, 'CancelledError')]
    return res


class _Guard(KeyboardInterrupt):
    """Raised by the wall-clock alarm.  asyncio stores any other exception raised inside a task step as that task's
    result (so a busy loop inside abort() would swallow the guard of `simloop.run`); KeyboardInterrupt is re-raised
    out of `run_until_complete`."""


class _SlowExecLoop(simloop.SimLoop):
    """SimLoop whose executor calls (aiofiles: exists / remove / open / write) still run inline but hand their result
    over `exec_delay` loop iterations later, the way a thread pool does: code that awaits them is really suspended
    (e.g. `abort()` removing the local file while it holds the state lock)."""

    exec_delay = 0

    def run_in_executor(self, executor, func, *args):
        fut = super().run_in_executor(executor, func, *args)
        if not self.exec_delay:
            return fut
        out = self.create_future()

        def hop(n):
            if out.done():
                return
            if n > 0:
                self.call_soon(hop, n - 1)
            elif fut.exception() is not None:
                out.set_exception(fut.exception())
            else:
                out.set_result(fut.result())

        self.call_soon(hop, self.exec_delay - 1)
        return out


def _guarded_run(main, wall: float, exec_delay: int = 0):
    """`simloop.run` with a repeating alarm that also gets out of busy loops inside sub-tasks and inside clean-up."""
    import signal
    loop = _SlowExecLoop()
    loop.exec_delay = exec_delay
    asyncio.set_event_loop(loop)

    def on_alarm(signum, frame):
        raise _Guard()

    # The budget is CPU time of this process (ITIMER_PROF), as in `simloop.run`: on a loaded machine a case that needs a
    # few ms of CPU can take many seconds of wall time, and a guard that fires then turns load into a false alarm.  A busy
    # loop burns CPU and is still caught; a loop that BLOCKS (nothing ready, no timer) burns none: the wall-clock timer
    # stays as a backstop at ten times the budget.  Both repeat, so that busy loops inside clean-up are left as well.
    old = signal.signal(signal.SIGALRM, on_alarm)
    old_prof = signal.signal(signal.SIGPROF, on_alarm)
    try:
        signal.setitimer(signal.ITIMER_REAL, wall * 10, 10.0)
        signal.setitimer(signal.ITIMER_PROF, wall, 1.0)
        try:
            with simloop.patched_clock(loop):
                res = loop.run_until_complete(main(loop))
            return res, loop
        finally:
            for _ in range(3):
                try:
                    pending = [t for t in asyncio.all_tasks(loop) if not t.done()]
                    for t in pending:
                        t.cancel()
                    if pending:
                        loop.run_until_complete(asyncio.gather(*pending, return_exceptions=True))
                    break
                except _Guard:
                    continue
                except BaseException:
                    break
    except _Guard:
        raise TimeoutError('time guard (CPU budget / wall-clock backstop): the case does not come to rest') from None
    finally:
        signal.setitimer(signal.ITIMER_REAL, 0)
        signal.setitimer(signal.ITIMER_PROF, 0)
        signal.signal(signal.SIGALRM, old)
        signal.signal(signal.SIGPROF, old_prof)
        asyncio.set_event_loop(None)
        try:
            loop.close()
        except BaseException:
            pass


def _eval_case(case, wall: float = WALL):
    try:
        return _run_impl(case, wall)
    except AssertionError:
        raise
    except (TimeoutError, RuntimeError) as e:
        # the loop did not come to rest (wall-clock guard / iteration budget): a call that never returns or a busy loop
        return {'hang': f'{type(e).__name__}: {e}', 'ev': [], 'snaps': [], 'log': [], 'granularity': []}
    except Exception as e:
        import traceback
        return {'harness_error': f'{type(e).__name__}: {e}', 'tb': traceback.format_exc()[-2000:]}


def _preload():
    """Import everything a case needs BEFORE the fork pool starts / the wall-clock guard is armed: on a loaded machine the
    first case of a worker otherwise spends its guard importing the library, and an alarm raised inside an import leaves
    half-initialised modules behind (seen as `module aiohttp has no attribute typedefs`)."""
    import aiofiles  # noqa: F401
    import aioslsk.events  # noqa: F401
    import aioslsk.exceptions  # noqa: F401
    import aioslsk.protocol.messages  # noqa: F401
    import aioslsk.settings  # noqa: F401
    import aioslsk.transfer.manager  # noqa: F401
    import aioslsk.transfer.model  # noqa: F401
    import aioslsk.transfer.state  # noqa: F401
    import aioslsk.user.model  # noqa: F401
    import vlib.xferrig  # noqa: F401


def _eval_all(cases: list) -> tuple[list, int]:
    """Evaluates the cases in growing batches; a wall-guard hit is confirmed by a second, serial run with a longer
    guard; after MAX_HANGS confirmed hangs the remaining cases are not run (returns results, number skipped)."""
    _preload()
    out: list = []
    hangs = 0
    i = 0
    for size in (len(DIRECTED) + 24, 96, len(cases)):
        batch = cases[i:i + size]
        if not batch:
            break
        res = common.parallel_map(_eval_case, batch)
        for c, r in zip(batch, res):
            if r.get('hang') and hangs < MAX_HANGS:
                r2 = _eval_case(c, WALL_CONFIRM)
                if r2.get('hang'):
                    hangs += 1
                r = r2
            out.append(r)
        i += len(batch)
        if hangs >= MAX_HANGS:
            break
    return out, len(cases) - i


# --------------------------------------------------------------------------------------------
# model side
# --------------------------------------------------------------------------------------------

def _script(impl: dict) -> tuple[list[str], list[Optional[str]], list[str]]:
    """model lines, expected observation per line (None = not compared), warnings"""
    lines: list[str] = []
    want: list[Optional[str]] = []
    tid: dict[str, int] = {}
    snaps = {s['at']: s for s in impl['snaps']}
    ev = impl['ev']

    def attach(i):
        s = snaps.get(i)
        if s is not None:
            if not lines:
                lines.append('cycle')
                want.append(None)
            want[-1] = (want[-1] or '') + ' || ' + s['snap']

    for i, e in enumerate(ev):
        attach(i)
        tag = e[0]
        if tag == 'end-of-window':
            return lines, want
        if tag == 'cycle':
            for k, name in e[1]:
                tid[name] = len(tid)
            lines.append('cycle ' + ' '.join(str(k) for k, _n in e[1]))
            want.append(f'nt={len(tid)} missed=-')
        elif tag == 'preq':
            for k, name in e[2]:
                tid[name] = len(tid)
            lines.append(f'preq {e[1]}')
            want.append(f'nt={len(tid)}')
        elif tag in ('tstart', 'tcb'):
            if e[1] in tid:
                lines.append(f'{tag} {tid[e[1]]}')
                want.append(None)
        elif tag == 'tend':
            if e[1] in tid:
                lines.append(f'tend {tid[e[1]]} {e[2]}')
                # how the task ended must be what the model expects: cancelled / refused (inert) / on its own
                want.append('end=' + (e[2] if e[2] in ('cancelled', 'refused') else 'normal'))
        elif tag in ('addDownload', 'addUpload', 'addFailed'):
            lines.append(tag)
            want.append(None)
        elif tag == 'rmid':
            lines.append(f'rmid {e[1]}')
            want.append(None)
        elif tag == 'upfail':
            lines.append(f'upfail {e[1]}')
            want.append(None)
        elif tag == 'status':
            for k in e[2]:
                lines.append(f'upfail {k}')       # the same reset of `remotely_queued`, for every download of the peer
                want.append(None)
        elif tag == 'upq-start':
            lines.append(f'upqs {e[1]}')
            want.append(None)
        elif tag == 'upq':
            lines.append(f'upqe {e[1]}')
            want.append(None)
        elif tag == 'call':
            lines.append(f'call {e[1]} {e[2]}')
            want.append(None)
        elif tag == 'resume':
            lines.append(f'resume {e[1]}')
            want.append(None)
        elif tag == 'requeue':
            lines.append(f'requeue {e[1]}')
            want.append(None)
        elif tag == 'peerfail':
            lines.append(f'peerfail {e[1]}')
            want.append(None)
    attach(len(ev))
    return lines, want


def _compare(lines, want, out) -> Optional[tuple]:
    for j, (ln, w, o) in enumerate(zip(lines, want, out)):
        if w is None:
            continue
        head, _, ents = o.partition(' | ')
        exp_head, _, exp_snap = w.partition(' || ')
        if exp_head:
            for tok in exp_head.split():
                if tok not in head.split():
                    return (j, ln, w, o)
        if exp_snap and exp_snap.split(' || ')[-1].strip() != ents.strip():
            return (j, ln, exp_snap.split(' || ')[-1], ents)
    if len(out) != len(lines):
        return (len(out), 'driver output length', len(lines), len(out))
    return None


# --------------------------------------------------------------------------------------------
# monitor
# --------------------------------------------------------------------------------------------

def _monitor(case: dict, impl: dict) -> list[Violation]:
    vs: list[Violation] = []

    def add(sig, what, observed=None, required=None):
        vs.append(Violation(sig, what, case, observed=observed, required=required))

    if impl.get('hang'):
        add('C06-never-comes-to-rest', 'the schedule does not terminate on the real code (a call that never returns or a '
            'busy loop): ' + impl['hang'], None, 'abort / pause / remove return')
        return vs
    ev, log, snaps = impl['ev'], impl['log'], impl['snaps']
    for e in ev:
        if e[0] == 'call-pending':
            add('C06-call-never-returns', f'{e[2]} of transfer {e[1]} has not returned {int(WINDOW)} virtual seconds after it '
                'was called: it waits for a task of the transfer that it did not cancel',
                {'stop_left': impl.get('stop_left')}, 'cancelling the transfer cancels all of it; the call returns')
    # single flight: at every observation point every live transfer task is the one in its slot, one per slot
    for s in snaps:
        for k, lst in s['live'].items():
            for kind in ('Q', 'T'):
                mine = [x for x in lst if x[1] == kind]
                if len(mine) > 1:
                    add('C06-two-tasks-in-flight',
                        f'transfer {k} has {len(mine)} live {"remote-queue" if kind == "Q" else "initialisation"} tasks',
                        {'tasks': [x[0] for x in mine], 'at_event': s['at']}, 'at most one per transfer')
                for x in mine:
                    if not x[2]:
                        add('C06-live-task-not-in-slot',
                            f'live task {x[0]} of transfer {k} is not the task its slot holds (cancel_tasks cannot reach it)',
                            {'at_event': s['at']}, 'live tasks are in the slots')
    # quiescence after a returned call
    # map rig.log positions to ev positions through the snapshots (both are append-only and snapshotted together)
    for i, e in enumerate(ev):
        if e[0] != 'resume':
            continue
        k, c, f0 = e[1], e[2], list(e[3])
        end = len(ev)
        base = [(i, list(f0))]           # (event index, fields expected from there on)
        for j in range(i + 1, len(ev)):
            x = ev[j]
            # The window ends at the next action of the user on k, or when the peer legitimately re-queues it (a transfer
            # request that is accepted).  A change of the block list / the shares is a user action on the uploads it
            # covers (also one made just before the call, whose re-evaluation is still being carried out:
            # `shares-done`), EXCEPT for an upload the user aborted (the user's abort is not undone by blocking /
            # unblocking the peer or unsharing / resharing the file) or removed.
            if x[0] in ('requeue', 'call') and x[1] == k:
                end = j
                break
            if x[0] == 'preq' and x[1] == k and x[2]:
                end = j
                break
            if x[0] in ('shares', 'shares-done') and k in x[2] and c == 'pause':
                end = j
                break
            # PeerTransferQueue for an upload that is (still) in the list and FAILED / COMPLETE: the peer re-queues it.
            # On a transfer that left the list the handler has nothing to re-queue: the window goes on.
            if x[0] == 'upq' and x[1] == k and x[2] in ('FAILED', 'COMPLETE') and x[3] == 'QUEUED' and x[4]:
                end = j
                break
            if x[0] == 'status' and k in x[2]:
                f0 = list(f0)
                f0[1] = False
                base.append((j, f0))
            # Other peer messages for k are not a re-queue: the window goes on, with the direct effect of the message
            # (outside the property) taken into the expected fields: PeerTransferQueueFailed makes a PAUSED download
            # FAILED with the peer's reason, PeerUploadFailed resets remotely_queued, a refused transfer request changes
            # nothing.
            if x[0] == 'peerfail' and x[1] == k and x[3] == 'FAILED' and x[2] != 'FAILED':
                f0 = list(f0)
                f0[0], f0[5] = 'FAILED', 'File not shared.'
                base.append((j, f0))
            if x[0] == 'upfail' and x[1] == k:
                f0 = list(f0)
                f0[1] = False
                base.append((j, f0))

        def expected(at):
            cur = base[0][1]
            for j, f in base:
                if j < at:
                    cur = f
            return cur

        # task activity for k inside (i, end)
        names = set()
        for x in ev:
            if x[0] == 'cycle':
                names |= {n for kk, n in x[1] if kk == k}
            if x[0] == 'preq':
                names |= {n for kk, n in x[2] if kk == k}
        for j in range(i + 1, end):
            x = ev[j]
            if x[0] == 'cycle' and any(kk == k for kk, _n in x[1]):
                add('C06-task-created-after-return', f'a cycle created a task for transfer {k} after {c} returned',
                    {'event': x[:2], 'at_event': j}, 'nothing happens until a re-queue')
            if x[0] == 'tend' and x[1] in names and x[2] not in ('cancelled', 'refused'):
                add('C06-activity-after-return', f'task {x[1]} of transfer {k} ran to its end ({x[2]}) after {c} returned',
                    {'at_event': j}, 'all of it was cancelled')
        # network activity on behalf of k between the return and the next user / peer action on k
        lo = e[4]
        hi = ev[end][-1] if end < len(ev) else len(log)
        for x in log[lo:hi]:
            if x[0] in ('connect', 'frame', 'fileconn') and x[1] == k:
                if x[0] == 'frame' and x[2] is None and x[3] == 'PeerTransferReply':
                    continue
                if x[0] == 'frame' and x[2] is None and x[3] in REPLIES and len(x) > 5 and x[5] == 'peer-conn':
                    continue        # the handler's answer on the connection the peer's own message came in on
                add('C06-message-after-return',
                    f'{x[0]} {x[3] if len(x) > 3 else ""} on behalf of transfer {k} after {c} returned', {'log': x},
                    'no message, no connection')
        # fields
        for s in snaps:
            if i < s['at'] <= end and k < len(s['fields']) and not (end < len(ev) and s['at'] > end):
                want = expected(s['at'])
                if s['fields'][k] != want:
                    diff = {FIELDS[n]: (a, b) for n, (a, b) in enumerate(zip(want, s['fields'][k])) if a != b}
                    add('C06-field-changed-after-return', f'fields of transfer {k} changed after {c} returned: {diff}',
                        {'at_event': s['at']}, 'unchanged')
                    break
                if s['live'].get(str(k)):
                    add('C06-live-task-after-return', f'transfer {k} still has live task(s) '
                        f'{[x[0] for x in s["live"][str(k)]]} after {c} returned', {'at_event': s['at']}, 'none')
                    break
                if s.get('other', {}).get(str(k)):
                    add('C06-work-outside-slots-after-return', f'after {c} returned the library still has task(s) in '
                        f'flight on behalf of transfer {k} that are not its remote-queue / initialisation task: '
                        f'{[(x[0], x[1]) for x in s["other"][str(k)]]}',
                        {'at_event': s['at'], 'pending_messages': s.get('aux', {}).get(str(k))},
                        'cancelling the transfer cancels all of it')
                    break
    if impl.get('loop_exceptions'):
        add('C06-internal-error', 'exception reported to the loop exception handler', impl['loop_exceptions'][:2])
    return vs


# --------------------------------------------------------------------------------------------
# generator
# --------------------------------------------------------------------------------------------

def _gen_case(rng: random.Random, max_ops: int = 12) -> dict:
    profile = rng.choice(['hang-cycles', 'hang-cycles', 'mixed', 'mixed', 'uploads', 'callback-race', 'call-race',
                          'peer-refuses', 'peer-refuses', 'incomplete-retry', 'incomplete-retry', 'both-slots'])
    ops: list[list] = []
    npeers = rng.randint(1, 2)
    per_peer = rng.randint(1, 3)
    dirs, users = [], []
    for p in range(npeers):
        for _ in range(per_peer):
            users.append(p)
            if profile == 'uploads' or (profile == 'mixed' and rng.random() < 0.3):
                ops.append(['addUpload', p, 0])
                dirs.append('U')
            else:
                ops.append(['addDownload', p, 0])
                dirs.append('D')
    n = len(dirs)
    DT = [0, 0, 0.02, 0.05, 0.05, 0.1, 0.3, 5.0]
    called: set = set()
    if profile == 'incomplete-retry':
        # download 0 gets through to DOWNLOADING and its file connection breaks: INCOMPLETE, the next cycle starts the
        # automatic retry, whose connect hangs; optionally that attempt fails (a cycle runs before its done-callback:
        # the INCOMPLETE -> QUEUED transition requests it) and the next one hangs
        k0 = next((i for i, d in enumerate(dirs) if d == 'D'), None)
        if k0 is not None:
            ops += [['net', k0, 'ok', False, rng.choice([0.05, 0.3])], ['preq', k0, rng.choice([0.05, 0.3])],
                    ['net', k0, 'incomplete', rng.random() < 0.3, rng.choice([0.05, 0.3])]]
            if rng.random() < 0.4:
                ops.append(['net', k0, 'fail-conn', rng.random() < 0.3, rng.choice([0.3, 0.3, 0.05, 5.0])])
            if rng.random() < 0.7:
                ops.append(['call', k0, rng.choice(['abort', 'pause', 'pause', 'remove']), rng.choice([None, 0, 1, 2, 3]),
                            rng.choice([0.05, 0.3, 0.3])])
                called.add(k0)
                ops.append(['net', k0, 'ok', rng.random() < 0.3, rng.choice(DT)])
    elif profile == 'both-slots':
        # the remote-queue attempt hangs on its connect while the peer already sends PeerTransferRequest: both task
        # slots are occupied when the user calls
        k0 = next((i for i, d in enumerate(dirs) if d == 'D'), None)
        if k0 is not None:
            ops += [['preq', k0, rng.choice([0.05, 0.3])]]
            if rng.random() < 0.5:
                ops.append(['poke', rng.choice(DT)])
            ops.append(['call', k0, rng.choice(['abort', 'pause', 'remove']), rng.choice([None, 0, 1, 2, 3]),
                        rng.choice([0.05, 0.3])])
            called.add(k0)
            ops.append(['net', k0, rng.choice(['transferring', 'ok', 'complete', 'incomplete']), rng.random() < 0.3,
                        rng.choice(DT)])
            ops.append(['net', k0, 'ok', False, rng.choice(DT)])
    for _ in range(rng.randint(3, max_ops)):
        dt = rng.choice(DT)
        r = rng.random()
        k = rng.randrange(n)
        if r < 0.22:
            ops.append(['poke', dt])
        elif r < 0.45:
            if dirs[k] == 'D':
                out = rng.choice(['ok', 'ok', 'ok', 'fail-conn', 'fail-conn', 'fail-write', 'incomplete', 'incomplete',
                                  'transferring', 'complete', 'timeout'])
            else:
                out = rng.choice(['toQueue', 'toQueue', 'fail', 'transferring', 'complete', 'step', 'step'])
            poke = rng.random() < (0.7 if profile == 'callback-race' else 0.25)
            ops.append(['net', k, out, poke, dt])
        elif r < 0.52 and dirs[k] == 'D':
            ops.append(['preq', k, dt])
        elif r < 0.56 and dirs[k] == 'U':
            ops.append([rng.choice(['upq', 'upq', 'upreq', 'placereq']), k, dt])
        elif r < 0.535 and dirs[k] == 'D':
            if rng.random() < 0.6:
                ops.append(['status', users[k], dt])
            else:
                ops.append(['placereply', k, dt])
        elif r < (0.66 if profile == 'peer-refuses' else 0.56) and dirs[k] == 'D':
            ops.append(['peerfail', k, dt])
            if profile == 'peer-refuses' and rng.random() < 0.6:
                # removal of the refused download while its attempt is still in flight, then the connect gets through
                ops.append(['call', k, rng.choice(['remove', 'remove', 'abort']), rng.choice([None, 0, 1, 2, 3]),
                            rng.choice(DT)])
                called.add(k)
                ops.append(['net', k, rng.choice(['ok', 'ok', 'fail-conn']), rng.random() < 0.3, rng.choice(DT)])
        elif r < 0.80:
            c = rng.choice(['abort', 'abort', 'pause', 'remove'])
            pa = rng.choice([None, 0, 1, 2, 3, 4]) if profile != 'call-race' else rng.choice([0, 1, 2, 3, 4])
            ops.append(['call', k, c, pa, dt])
            called.add(k)
        elif r < 0.88 and called:
            ops.append(['requeue', rng.choice(sorted(called)), dt])
        else:
            ops.append(['wait', rng.choice([0.05, 0.3, 31.0, 61.0])])
    return {'ops': ops, 'kind': profile, 'slots': rng.choice([1, 2, 3])}


def _during(rng: random.Random, is_download: bool, p_preq: float = 0.5, hi: int = 6) -> list:
    """peer events / cycle requests delivered 0..hi loop iterations after a call started: every message the transfer
    manager has a handler for (downloads: PeerTransferRequest, PeerTransferQueueFailed, PeerUploadFailed,
    PeerPlaceInQueueReply, the peer's status; uploads: PeerTransferQueue, PeerTransferRequest, PeerPlaceInQueueRequest)"""
    evs = []
    if is_download:
        if rng.random() < p_preq:
            evs.append(['preq', rng.randrange(0, hi)])
        if rng.random() < 0.15:
            evs.append(['peerfail', rng.randrange(0, hi)])
        if rng.random() < 0.25:
            evs.append(['upfail', rng.randrange(0, hi)])
        if rng.random() < 0.08:
            evs.append(['status', rng.randrange(0, hi)])
        if rng.random() < 0.05:
            evs.append(['placereply', rng.randrange(0, hi)])
    else:
        if rng.random() < 0.5:
            evs.append(['upq', rng.randrange(0, hi)])
        if rng.random() < 0.15:
            evs.append(['upreq', rng.randrange(0, hi)])
        if rng.random() < 0.1:
            evs.append(['placereq', rng.randrange(0, hi)])
    if rng.random() < 0.35:
        evs.append(['poke', rng.randrange(0, hi)])
    return evs


def _gen_window_case(rng: random.Random, max_ops: int = 8) -> dict:
    """Families that aim at the window between the cancellation and the return of abort / pause / remove:
    something for the transfer arrives (peer request, peer refusal, PeerUploadFailed, management cycle) in the same step
    as the call or 0..5 loop iterations later, for every call kind, from every state in which the handlers / the cycle
    would create a task (QUEUED, INCOMPLETE with / without a live retry, FAILED without a reason that is being retried,
    both slots occupied); cancelled network steps take 0..3 iterations to unwind, executor calls 0..2."""
    profile = rng.choice(['peer-during-call', 'peer-during-call', 'peer-during-call', 'failed-retry', 'failed-retry',
                          'shares', 'shares', 'upload-notify', 'upload-notify', 'handler-window', 'handler-window'])
    DT = [0, 0.05, 0.05, 0.1, 0.3, 0.3]
    case = {'kind': profile, 'slots': rng.choice([1, 2, 3]), 'teardown': rng.choice([0, 0, 1, 2, 3]),
            'exec_delay': rng.choice([0, 0, 0, 1, 2])}
    ops: list[list] = []
    if profile == 'peer-during-call':
        n = rng.randint(1, 3)
        ops += [['addDownload', 0, 0] for _ in range(n)]
        k0 = rng.randrange(n)
        setup = rng.choice(['queued', 'queued', 'incomplete-retry', 'incomplete-idle', 'queued-remotely', 'both-slots'])
        if setup in ('incomplete-retry', 'incomplete-idle'):
            # through to DOWNLOADING, the file connection breaks: INCOMPLETE; the next cycle starts the retry
            ops += [['net', k0, 'ok', False, 0.3], ['preq', k0, 0.3], ['net', k0, 'incomplete', False, 0.3]]
            if setup == 'incomplete-idle':
                ops.append(['net', k0, 'ok', False, 0.3])             # retry delivered: remotely queued, nothing in flight
                case['exec_delay'] = rng.choice([1, 2, 3])           # the only suspension of the call: removing the file
        elif setup == 'queued-remotely':
            ops.append(['net', k0, 'ok', False, 0.3])
        elif setup == 'both-slots':
            ops.append(['preq', k0, 0.3])
        c = rng.choice(['abort', 'abort', 'pause', 'pause', 'remove'])
        ops.append(['call', k0, c, rng.choice([None, None, 0, 1, 2, 3]), _during(rng, True, 0.9), rng.choice([0.05, 0.3])])
        # whatever survived gets its network steps through; long enough for the 60 s file-connection timeout
        ops.append(['net', k0, rng.choice(['ok', 'transferring', 'complete', 'timeout']), rng.random() < 0.3, rng.choice(DT)])
        ops.append(['net', k0, 'ok', False, rng.choice(DT)])
        if rng.random() < 0.4:
            ops.append(['requeue', k0, rng.choice([0.3, 61.0])])
            ops.append(['call', k0, rng.choice(['abort', 'pause', 'remove']), rng.choice([None, 0, 1, 2]),
                        _during(rng, True, 0.7), rng.choice(DT)])
            ops.append(['net', k0, 'ok', False, rng.choice(DT)])
        for _ in range(rng.randint(0, max_ops - 4)):
            k = rng.randrange(n)
            r = rng.random()
            if r < 0.3:
                ops.append(['call', k, rng.choice(['abort', 'pause', 'remove']), rng.choice([None, 0, 1, 2, 3]),
                            _during(rng, True), rng.choice(DT)])
            elif r < 0.5:
                ops.append(['net', k, rng.choice(['ok', 'fail-conn', 'transferring', 'incomplete']), rng.random() < 0.3,
                            rng.choice(DT)])
            elif r < 0.6:
                ops.append(['preq', k, rng.choice(DT)])
            elif r < 0.7:
                ops.append(['upfail', k, rng.choice(DT)])
            elif r < 0.8:
                ops.append(['poke', rng.choice(DT)])
            else:
                ops.append(['wait', rng.choice([0.3, 61.0])])
    elif profile == 'failed-retry':
        n = rng.randint(1, 3)
        for i in range(n):
            ops.append(['addFailed' if (i == 0 or rng.random() < 0.6) else 'addDownload', 0, 0])
        k0 = 0
        r = rng.random()
        if r < 0.25:
            ops.append(['net', k0, 'fail-conn', rng.random() < 0.5, 0.3])      # attempt fails: FAILED -> QUEUED, next one hangs
        elif r < 0.4:
            ops.append(['net', k0, 'ok', False, 0.3])                         # delivered: FAILED + remotely queued
            if rng.random() < 0.5:
                ops.append(['preq', k0, 0.3])                                 # the peer re-queues it: initialisation hangs
        elif r < 0.5:
            ops.append(['poke', 0.3])
        c = rng.choice(['remove', 'remove', 'remove', 'abort', 'pause'])
        ops.append(['call', k0, c, rng.choice([0, 1, 2, 3, 4, 5]), _during(rng, True, 0.4), rng.choice([0.05, 0.3])])
        ops.append(['net', k0, rng.choice(['ok', 'ok', 'fail-conn']), rng.random() < 0.3, rng.choice(DT)])
        for _ in range(rng.randint(0, max_ops - 4)):
            k = rng.randrange(n)
            r = rng.random()
            if r < 0.35:
                ops.append(['call', k, rng.choice(['remove', 'remove', 'abort', 'pause']), rng.choice([None, 0, 1, 2, 3, 4]),
                            _during(rng, True, 0.4), rng.choice(DT)])
            elif r < 0.6:
                ops.append(['net', k, rng.choice(['ok', 'fail-conn', 'fail-write']), rng.random() < 0.4, rng.choice(DT)])
            elif r < 0.7:
                ops.append(['preq', k, rng.choice(DT)])
            elif r < 0.8:
                ops.append(['poke', rng.choice(DT)])
            elif r < 0.9:
                ops.append(['requeue', k, rng.choice(DT)])
            else:
                ops.append(['wait', rng.choice([0.3, 31.0])])
    elif profile == 'upload-notify':
        # An upload gets through to UPLOADING and hits a write error: FAILED, while its task still has to deliver
        # PeerUploadFailed over a connection that is slow (`aux`: every such message is a gate).  Then remove (the only
        # call FAILED accepts), or the peer queues the file again and the user aborts / pauses / removes; the connection
        # gets through (or fails) only afterwards.
        case['aux'] = True
        case['share_delay'] = rng.choice([0, 0, 1, 2])
        n = rng.randint(1, 2)
        ops += [['addUpload', i, 0] for i in range(n)]                 # one peer each: one upload per peer at a time
        k0 = rng.randrange(n)
        ops += [['net', k0, 'transferring', False, 0.3], ['net', k0, 'fail', rng.random() < 0.3, 0.3]]
        r = rng.random()
        if r < 0.45:
            ops.append(['call', k0, 'remove', rng.choice([None, 0, 1, 2]), _during(rng, False), rng.choice([0.05, 0.3])])
        elif r < 0.9:
            ops.append(['upq', k0, [], rng.choice([0.05, 0.3])])
            if rng.random() < 0.6:
                ops.append(['poke', rng.choice(DT)])
            ops.append(['call', k0, rng.choice(['abort', 'pause', 'remove']), rng.choice([None, 0, 1, 2]),
                        _during(rng, False), rng.choice([0.05, 0.3])])
        else:
            ops.append(['aux', k0, rng.choice(['ok', 'fail']), 0.3])
            ops.append(['call', k0, 'remove', None, _during(rng, False), 0.3])
        ops.append(['aux', k0, rng.choice(['ok', 'ok', 'fail']), rng.choice(DT)])
        ops.append(['net', k0, rng.choice(['transferring', 'toQueue', 'complete']), False, rng.choice(DT)])
        for _ in range(rng.randint(0, max_ops - 4)):
            k = rng.randrange(n)
            r = rng.random()
            if r < 0.3:
                ops.append(['call', k, rng.choice(['abort', 'pause', 'remove']), rng.choice([None, 0, 1, 2, 3]),
                            _during(rng, False), rng.choice(DT)])
            elif r < 0.5:
                ops.append(['net', k, rng.choice(['transferring', 'fail', 'toQueue', 'complete', 'step', 'step']),
                            rng.random() < 0.3, rng.choice(DT)])
            elif r < 0.62:
                ops.append(['upq', k, [], rng.choice(DT)])
            elif r < 0.72:
                ops.append(['aux', k, rng.choice(['ok', 'fail']), rng.choice(DT)])
            elif r < 0.8:
                ops.append(['poke', rng.choice(DT)])
            elif r < 0.88:
                ops.append(['requeue', k, rng.choice(DT)])
            else:
                ops.append(['wait', rng.choice([0.3, 31.0])])
    elif profile == 'handler-window':
        # A peer message handler that looks at the transfer and then WAITS (for the shares manager: `share_delay`
        # iterations; for the state lock) while the user calls abort / pause / remove: the peer's message arrives first,
        # the call is made 0..3 iterations later.  Uploads from every state the handlers distinguish.
        case['share_delay'] = rng.choice([1, 2, 3])
        case['aux'] = rng.random() < 0.5
        n = rng.randint(1, 2)
        ops += [['addUpload', i, 0] for i in range(n)]
        k0 = rng.randrange(n)
        setup = rng.choice(['failed', 'failed', 'complete', 'write-error', 'queued', 'initializing', 'uploading', 'aborted'])
        if setup == 'failed':
            ops.append(['net', k0, 'fail', False, 0.3])                      # the peer refuses the upload
        elif setup == 'complete':
            ops.append(['net', k0, 'complete', False, 0.3])
        elif setup == 'write-error':
            ops += [['net', k0, 'transferring', False, 0.3], ['net', k0, 'fail', False, 0.3]]
            if rng.random() < 0.5:
                ops.append(['aux', k0, rng.choice(['ok', 'fail']), 0.3])
        elif setup == 'queued':
            ops.append(['net', k0, 'toQueue', False, 0.3])
        elif setup == 'uploading':
            ops.append(['net', k0, 'transferring', False, 0.3])
        elif setup == 'initializing':
            ops += [['net', k0, 'step', False, 0.3] for _ in range(rng.randint(0, 4))]
        elif setup == 'aborted':
            ops.append(['call', k0, 'abort', None, [], 0.3])
        c = rng.choice(['remove', 'remove', 'remove', 'abort', 'pause'])
        ops.append([rng.choice(['upq', 'upq', 'upq', 'upreq']), k0, [[k0, c, rng.randrange(0, 4)]], rng.choice([0.05, 0.3])])
        ops.append(['net', k0, rng.choice(['transferring', 'toQueue', 'complete']), False, rng.choice(DT)])
        for _ in range(rng.randint(0, max_ops - 4)):
            k = rng.randrange(n)
            r = rng.random()
            if r < 0.3:
                ops.append([rng.choice(['upq', 'upq', 'upreq', 'placereq']), k,
                            [[k, rng.choice(['remove', 'abort', 'pause']), rng.randrange(0, 4)]] if rng.random() < 0.6 else [],
                            rng.choice(DT)])
            elif r < 0.5:
                ops.append(['call', k, rng.choice(['abort', 'pause', 'remove']), rng.choice([None, 0, 1, 2]),
                            _during(rng, False), rng.choice(DT)])
            elif r < 0.7:
                ops.append(['net', k, rng.choice(['transferring', 'fail', 'toQueue', 'complete', 'step', 'step']), False,
                            rng.choice(DT)])
            elif r < 0.78:
                ops.append(['aux', k, rng.choice(['ok', 'fail']), rng.choice(DT)])
            elif r < 0.86:
                ops.append(['requeue', k, rng.choice(DT)])
            else:
                ops.append(['wait', rng.choice([0.3, 31.0])])
    else:
        # block list / shares changes after (and around) a call on an upload: monitor-only, the library's own
        # abort / re-queue of uploads in `manage_shares_changed` is C08's model
        case['model'] = False
        npeers = rng.randint(1, 2)
        dirs, users = [], []
        for p in range(npeers):
            for _ in range(rng.randint(1, 2)):
                d = 'U' if rng.random() < 0.8 else 'D'
                ops.append(['addUpload' if d == 'U' else 'addDownload', p, 0])
                dirs.append(d)
                users.append(p)
        n = len(dirs)
        ups = [i for i, d in enumerate(dirs) if d == 'U'] or [0]
        k0 = rng.choice(ups)
        r = rng.random()
        if r < 0.3:
            ops.append(['net', k0, 'transferring', False, 0.3])
        elif r < 0.45:
            ops.append(['net', k0, 'toQueue', True, 0.3])
        ops.append(['call', k0, rng.choice(['abort', 'abort', 'abort', 'pause', 'remove']), rng.choice([None, 0, 1, 2]),
                    [], rng.choice([0.05, 0.3])])
        toggles = [('block', 'unblock', users[k0]), ('unshare', 'reshare', k0)]

        def then(k):
            # a call on an upload the change covers, 0..3 iterations into the re-evaluation
            if rng.random() < 0.3:
                return [[k, rng.choice(['remove', 'remove', 'abort', 'pause']), rng.randrange(0, 4)]]
            return []

        for _ in range(rng.randint(1, 3)):
            a, b, arg = rng.choice(toggles)
            ops.append([a, arg, then(k0), rng.choice([0.1, 0.3, 5.0])])
            if rng.random() < 0.3:
                ops.append(['poke', rng.choice(DT)])
            if rng.random() < 0.85:
                ops.append([b, arg, then(k0), rng.choice([0.1, 0.3, 5.0])])
            if rng.random() < 0.5:
                ops.append(['net', k0, rng.choice(['transferring', 'toQueue', 'complete']), False, rng.choice([0.3, 1.0])])
        for _ in range(rng.randint(0, max_ops - 4)):
            k = rng.randrange(n)
            r = rng.random()
            if r < 0.3:
                ops.append(['call', k, rng.choice(['abort', 'pause', 'remove']), rng.choice([None, 0, 1, 2]), [],
                            rng.choice(DT)])
            elif r < 0.6:
                a, b, arg = rng.choice([('block', 'unblock', users[k]), ('unshare', 'reshare', k)])
                ops.append([rng.choice([a, b]), arg, then(k), rng.choice(DT)])
            elif r < 0.75:
                ops.append(['net', k, rng.choice(['transferring', 'toQueue', 'complete', 'fail']), False, rng.choice(DT)])
            elif r < 0.85:
                ops.append(['requeue', k, rng.choice(DT)])
            else:
                ops.append(['wait', rng.choice([0.3, 31.0])])
    ops.append(['wait', 1.0])
    case['ops'] = ops
    return case


DIRECTED = [
    # the defect found at design time: the remote-queue attempt hangs, two more cycles, abort, then the connects succeed
    {'kind': 'directed-orphan-after-abort', 'slots': 2, 'ops': [
        ['addDownload', 0, 0], ['poke', 0.3], ['poke', 0.3], ['call', 0, 'abort', None, 0.3], ['net', 0, 'ok', False, 0.3],
        ['wait', 1.0]]},
    # a cycle between the end of a failed attempt and its done-callback
    {'kind': 'directed-callback-race', 'slots': 2, 'ops': [
        ['addDownload', 0, 0], ['net', 0, 'fail-conn', True, 0.3], ['call', 0, 'pause', None, 0.3], ['net', 0, 'ok', False, 0.3],
        ['wait', 1.0]]},
    # a cycle while abort waits for the task it cancelled
    {'kind': 'directed-cycle-during-abort', 'slots': 2, 'ops': [
        ['addDownload', 0, 0], ['call', 0, 'abort', 2, 0.3], ['net', 0, 'ok', False, 0.3], ['wait', 1.0]]},
    {'kind': 'directed-cycle-during-abort-3', 'slots': 2, 'ops': [
        ['addDownload', 0, 0], ['call', 0, 'abort', 3, 0.3], ['net', 0, 'ok', False, 0.3], ['wait', 1.0]]},
    # upload initialisation falls back to the queue; abort while the second attempt hangs; re-queue later
    {'kind': 'directed-upload', 'slots': 1, 'ops': [
        ['addUpload', 0, 0], ['net', 0, 'toQueue', True, 0.3], ['call', 0, 'abort', 1, 0.3], ['net', 0, 'transferring', False, 0.3],
        ['requeue', 0, 1.0], ['net', 0, 'complete', False, 0.3], ['wait', 1.0]]},
    # the peer refuses the queue request while the attempt still connects: FAILED (abort refuses it) with a live task;
    # remove must cancel it — afterwards the connect succeeds
    {'kind': 'directed-remove-failed-live-task', 'slots': 2, 'ops': [
        ['addDownload', 0, 0], ['peerfail', 0, 0.3], ['call', 0, 'remove', None, 0.3], ['net', 0, 'ok', False, 0.3],
        ['wait', 1.0]]},
    # same through a second attempt: queued remotely, peer goes offline->online is not needed: the first attempt failed,
    # the retry hangs, the peer's refusal of an earlier request arrives, remove while a cycle is requested
    {'kind': 'directed-remove-failed-retry', 'slots': 2, 'ops': [
        ['addDownload', 0, 0], ['net', 0, 'fail-conn', True, 0.3], ['peerfail', 0, 0.3], ['poke', 0.3],
        ['call', 0, 'remove', 2, 0.3], ['net', 0, 'ok', True, 0.3], ['wait', 1.0]]},
    # a download whose file connection broke (INCOMPLETE) is retried by the next cycle; the retry's connect hangs; pause /
    # abort at that point; then the connect succeeds
    {'kind': 'directed-incomplete-retry-pause', 'slots': 2, 'ops': [
        ['addDownload', 0, 0], ['net', 0, 'ok', False, 0.3], ['preq', 0, 0.3], ['net', 0, 'incomplete', False, 0.3],
        ['call', 0, 'pause', None, 0.3], ['net', 0, 'ok', False, 0.3], ['wait', 1.0]]},
    {'kind': 'directed-incomplete-retry-abort', 'slots': 2, 'ops': [
        ['addDownload', 0, 0], ['net', 0, 'ok', False, 0.3], ['preq', 0, 0.3], ['net', 0, 'incomplete', False, 0.3],
        ['call', 0, 'abort', 1, 0.3], ['net', 0, 'ok', False, 0.3], ['wait', 1.0]]},
    # the retry of the INCOMPLETE download fails: INCOMPLETE -> QUEUED requests a cycle that runs before the failed
    # attempt's done-callback; abort while the next attempt hangs
    {'kind': 'directed-incomplete-callback-race', 'slots': 2, 'ops': [
        ['addDownload', 0, 0], ['net', 0, 'ok', False, 0.3], ['preq', 0, 0.3], ['net', 0, 'incomplete', False, 0.3],
        ['net', 0, 'fail-conn', False, 0.3], ['call', 0, 'abort', None, 0.3], ['net', 0, 'ok', False, 0.3], ['wait', 1.0]]},
    # both slots occupied: the remote-queue attempt hangs while the peer's transfer request starts the initialisation
    {'kind': 'directed-both-slots-abort', 'slots': 2, 'ops': [
        ['addDownload', 0, 0], ['preq', 0, 0.3], ['call', 0, 'abort', None, 0.3], ['net', 0, 'transferring', False, 0.3],
        ['net', 0, 'ok', False, 0.3], ['wait', 1.0]]},
    {'kind': 'directed-both-slots-pause', 'slots': 2, 'ops': [
        ['addDownload', 0, 0], ['preq', 0, 0.3], ['call', 0, 'pause', 2, 0.3], ['net', 0, 'complete', False, 0.3],
        ['wait', 1.0]]},
    # peer request while the remote-queue attempt still hangs, initialisation fails, remove
    {'kind': 'directed-remove', 'slots': 2, 'ops': [
        ['addDownload', 0, 0], ['preq', 0, 0.3], ['net', 0, 'fail', False, 0.3], ['wait', 61.0], ['call', 0, 'remove', None, 0.3],
        ['wait', 1.0]]},
    # --- round 3: something arrives for the transfer while the call is suspended ---------------------------------------
    # the peer's PeerTransferRequest arrives in the same step as abort (which waits for the remote-queue attempt it
    # cancelled): the handler still sees QUEUED and starts an initialisation the call cannot cancel any more; that task
    # must find the transition refused and end (fixes/C06-init-download-refused.md)
    {'kind': 'directed-preq-during-abort', 'slots': 2, 'ops': [
        ['addDownload', 0, 0], ['call', 0, 'abort', None, [['preq', 0]], 0.3], ['net', 0, 'ok', False, 0.3], ['wait', 61.0],
        ['wait', 1.0]]},
    {'kind': 'directed-preq-during-pause-teardown', 'slots': 2, 'teardown': 2, 'ops': [
        ['addDownload', 0, 0], ['call', 0, 'pause', None, [['preq', 2]], 0.3], ['net', 0, 'transferring', False, 0.3],
        ['wait', 61.0], ['wait', 1.0]]},
    {'kind': 'directed-preq-during-remove', 'slots': 2, 'teardown': 1, 'ops': [
        ['addDownload', 0, 0], ['call', 0, 'remove', None, [['preq', 1]], 0.3], ['net', 0, 'ok', False, 0.3], ['wait', 61.0],
        ['wait', 1.0]]},
    # INCOMPLETE download, retry delivered (remotely queued, nothing in flight): abort only suspends while it removes the
    # local file under the state lock; the peer's request arrives then
    {'kind': 'directed-preq-during-abort-incomplete-idle', 'slots': 2, 'exec_delay': 2, 'ops': [
        ['addDownload', 0, 0], ['net', 0, 'ok', False, 0.3], ['preq', 0, 0.3], ['net', 0, 'incomplete', False, 0.3],
        ['net', 0, 'ok', False, 0.3], ['call', 0, 'abort', None, [['preq', 1]], 0.3], ['net', 0, 'ok', False, 0.3],
        ['wait', 61.0], ['wait', 1.0]]},
    # the peer's refusal / PeerUploadFailed arrive while pause waits
    {'kind': 'directed-peerfail-upfail-during-pause', 'slots': 2, 'teardown': 2, 'ops': [
        ['addDownload', 0, 0], ['call', 0, 'pause', 1, [['upfail', 0], ['peerfail', 1]], 0.3], ['net', 0, 'ok', False, 0.3],
        ['wait', 1.0]]},
    # a download that failed without a reason (as read from the cache) is retried by the manager; remove while the retry
    # hangs, a cycle 1 / 3 iterations later (between the end of the cancelled attempt and the return of remove)
    {'kind': 'directed-failed-retry-remove-cycle', 'slots': 2, 'ops': [
        ['addFailed', 0, 0], ['call', 0, 'remove', 1, [], 0.3], ['net', 0, 'ok', False, 0.3], ['wait', 1.0]]},
    {'kind': 'directed-failed-retry-remove-cycle-teardown', 'slots': 2, 'teardown': 2, 'ops': [
        ['addFailed', 0, 0], ['net', 0, 'fail-conn', False, 0.3], ['call', 0, 'remove', 3, [['preq', 2]], 0.3],
        ['net', 0, 'ok', False, 0.3], ['wait', 1.0]]},
    {'kind': 'directed-failed-retry-delivered-preq', 'slots': 2, 'ops': [
        ['addFailed', 0, 0], ['net', 0, 'ok', False, 0.3], ['preq', 0, 0.3], ['call', 0, 'abort', 1, [['preq', 1]], 0.3],
        ['net', 0, 'ok', False, 0.3], ['wait', 1.0]]},
    # the user aborts an upload; blocking and unblocking the peer / unsharing and resharing the file must not bring it back
    {'kind': 'directed-abort-upload-block-unblock', 'slots': 2, 'model': False, 'ops': [
        ['addUpload', 0, 0], ['call', 0, 'abort', None, [], 0.3], ['block', 0, 0.3], ['unblock', 0, 0.3],
        ['net', 0, 'transferring', False, 0.3], ['unshare', 0, 0.3], ['reshare', 0, 0.3], ['net', 0, 'transferring', False, 0.3],
        ['wait', 1.0]]},
    # an upload aborted because its peer was blocked is re-queued by the re-evaluation after the unblock; the user removes
    # it while that re-evaluation is being carried out: nothing may change for it after remove returned
    # (fixes/C06-shares-requeue-removed.md)
    {'kind': 'directed-unblock-requeue-vs-remove', 'slots': 2, 'model': False, 'ops': [
        ['addUpload', 0, 0], ['block', 0, [], 0.3], ['unblock', 0, [[0, 'remove', 0]], 0.3], ['wait', 1.0]]},
    # --- round 4 --------------------------------------------------------------------------------------------------------
    # work on behalf of a transfer outside / after its negotiation: an upload hits a write error (FAILED) and still has to
    # deliver PeerUploadFailed over a slow connection; remove while that is pending, the connection gets through later
    {'kind': 'directed-upload-write-error-remove', 'slots': 2, 'aux': True, 'ops': [
        ['addUpload', 0, 0], ['net', 0, 'transferring', False, 0.3], ['net', 0, 'fail', False, 0.3],
        ['call', 0, 'remove', None, [], 0.3], ['aux', 0, 'ok', 0.3], ['wait', 1.0]]},
    # ... the peer queues the file again (FAILED -> QUEUED) while the delivery is pending, a cycle, the user aborts / pauses
    {'kind': 'directed-upload-write-error-requeued-abort', 'slots': 2, 'aux': True, 'ops': [
        ['addUpload', 0, 0], ['net', 0, 'transferring', False, 0.3], ['net', 0, 'fail', False, 0.3], ['upq', 0, [], 0.3],
        ['poke', 0.3], ['call', 0, 'abort', None, [], 0.3], ['aux', 0, 'ok', 0.3], ['net', 0, 'transferring', False, 0.3],
        ['wait', 1.0]]},
    {'kind': 'directed-upload-write-error-requeued-pause', 'slots': 2, 'aux': True, 'teardown': 2, 'ops': [
        ['addUpload', 0, 0], ['net', 0, 'transferring', False, 0.3], ['net', 0, 'fail', True, 0.3], ['upq', 0, [], 0.05],
        ['call', 0, 'pause', 1, [['upq', 1]], 0.3], ['aux', 0, 'ok', 0.3], ['net', 0, 'transferring', False, 0.3],
        ['wait', 1.0]]},
    # a handler that decides on a state it read BEFORE it waits: PeerUploadFailed while pause / abort wait for the retry of
    # an INCOMPLETE download they cancelled (slow tear-down, removal of the partial file in the executor)
    {'kind': 'directed-upfail-during-pause-incomplete-retry', 'slots': 2, 'teardown': 2, 'ops': [
        ['addDownload', 0, 0], ['net', 0, 'ok', False, 0.3], ['preq', 0, 0.3], ['net', 0, 'incomplete', False, 0.3],
        ['call', 0, 'pause', None, [['upfail', 1]], 0.3], ['net', 0, 'ok', True, 0.3], ['wait', 1.0]]},
    {'kind': 'directed-upfail-during-abort-incomplete-retry', 'slots': 2, 'teardown': 1, 'exec_delay': 2, 'ops': [
        ['addDownload', 0, 0], ['net', 0, 'ok', False, 0.3], ['preq', 0, 0.3], ['net', 0, 'incomplete', False, 0.3],
        ['call', 0, 'abort', None, [['upfail', 2], ['status', 1]], 0.3], ['net', 0, 'ok', True, 0.3], ['wait', 1.0]]},
    # the peer's PeerTransferQueue for a FAILED / COMPLETE upload: the handler finds the transfer and asks the shares
    # manager (suspends); the user removes the upload meanwhile; the handler goes on after remove returned
    # (fixes/C06-peer-queue-removed.md)
    {'kind': 'directed-peer-queue-vs-remove-failed', 'slots': 2, 'share_delay': 2, 'ops': [
        ['addUpload', 0, 0], ['net', 0, 'fail', False, 0.3], ['upq', 0, [[0, 'remove', 1]], 0.3], ['wait', 1.0]]},
    {'kind': 'directed-peer-queue-vs-remove-complete', 'slots': 2, 'share_delay': 3, 'ops': [
        ['addUpload', 0, 0], ['net', 0, 'complete', False, 0.3], ['upq', 0, [[0, 'remove', 0]], 0.3],
        ['net', 1, 'transferring', False, 0.3], ['wait', 1.0]]},
    # abort / pause at the inner points of an upload's negotiation: request delivered and the peer has not answered yet;
    # answered, the file connection attempt hangs
    {'kind': 'directed-upload-abort-at-reply', 'slots': 2, 'ops': [
        ['addUpload', 0, 0], ['net', 0, 'step', False, 0.3], ['call', 0, 'abort', None, [], 0.3],
        ['net', 0, 'transferring', False, 0.3], ['wait', 1.0]]},
    {'kind': 'directed-upload-pause-at-file-connection', 'slots': 2, 'teardown': 1, 'ops': [
        ['addUpload', 0, 0], ['net', 0, 'step', False, 0.3], ['net', 0, 'step', False, 0.3],
        ['call', 0, 'pause', 1, [['upq', 0]], 0.3], ['net', 0, 'transferring', False, 0.3], ['wait', 1.0]]},
    # the same handler for an upload the user aborts / pauses while it is suspended
    {'kind': 'directed-peer-queue-vs-abort-queued', 'slots': 2, 'share_delay': 2, 'teardown': 1, 'ops': [
        ['addUpload', 0, 0], ['upq', 0, [[0, 'abort', 1]], 0.3], ['upreq', 0, [[0, 'remove', 1]], 0.3],
        ['net', 0, 'transferring', False, 0.3], ['wait', 1.0]]},
]


FLOORS = (
    'download-or-upload-transferring', 'download-or-upload-incomplete', 'download-or-upload-complete',
    'call-on-INCOMPLETE-with-live-retry', 'call-with-both-slots-occupied', 'cycle-while-call-waits',
    'cycle-between-task-end-and-callback', 'peer-request-while-call-waits-starts-initialisation',
    'late-initialisation-refused', 'late-initialisation-cancelled-by-remove', 'failed-without-reason-download',
    'upload-failed-message-while-call-waits', 'upload-failed-message-while-call-waits-for-retry-of-INCOMPLETE',
    'upload-FAILED-with-failure-message-pending', 'remove-of-FAILED-upload-while-its-failure-message-is-pending',
    'call-while-upload-failed-message-pending', 'peer-requeues-upload',
    'peer-queue-handler-suspended-across-returned-call', 'peer-queue-handler-resumed-after-remove-returned',
    'shares-or-block-change-after-returned-call-on-upload',
)


def _features(case, impl) -> set:
    feats = set()
    ev = impl['ev']
    live: dict = {}
    for i, e in enumerate(ev):
        if e[0] == 'resume':
            feats.add('call-returned-' + e[2])
        if e[0] == 'call-refused':
            feats.add('call-refused')
        if e[0] == 'call' and e[2] == 'remove' and e[4] > 0 and e[3] in ('FAILED', 'COMPLETE', 'ABORTED', 'VIRGIN'):
            feats.add('remove-in-state-refusing-abort-with-live-task')
        if e[0] == 'peerfail' and e[2] != e[3]:
            feats.add('peer-refused-queue-request')
        if e[0] == 'call' and e[3] == 'INCOMPLETE' and e[4] > 0:
            feats.add('call-on-INCOMPLETE-with-live-retry')
        if e[0] == 'call' and e[4] >= 2:
            feats.add('call-with-both-slots-occupied')
        if e[0] == 'tend' and e[2] in ('incomplete', 'complete', 'transferring'):
            feats.add('download-or-upload-' + e[2])
        if e[0] == 'tend' and e[2] == 'cancelled':
            feats.add('task-cancelled-while-running')
        if e[0] == 'tstart' and i + 1 < len(ev) and ev[i + 1][0] == 'tcb' and ev[i + 1][1] == e[1]:
            feats.add('task-cancelled-before-start')
        if e[0] == 'cycle' and not e[1]:
            # a cycle that created nothing although some transfer has a live task = the guard mattered (or nothing to do)
            pass
        if e[0] == 'preq' and e[2]:
            feats.add('peer-request-accepted')
        if e[0] == 'requeue':
            feats.add('requeued')
    # a cycle / a peer message between a call and its return
    open_calls = 0
    pending: dict = {}
    late: set = set()
    returned: set = set()
    for e in ev:
        if e[0] == 'end-of-window':
            break
        if e[0] == 'call':
            open_calls += 1
            pending[e[1]] = (e[2], e[3], e[4])
        elif e[0] in ('resume', 'call-refused'):
            open_calls -= 1
            pending.pop(e[1], None)
            if e[0] == 'resume':
                returned.add(e[1])
        elif e[0] == 'cycle' and open_calls > 0:
            feats.add('cycle-while-call-waits')
            for k, (c, st, nlive) in pending.items():
                if c == 'remove' and st == 'FAILED' and nlive > 0:
                    feats.add('cycle-while-remove-waits-for-retry-of-FAILED-download')
        elif e[0] == 'preq' and e[1] in pending:
            feats.add('peer-request-while-call-waits')
            if e[2]:
                feats.add('peer-request-while-call-waits-starts-initialisation')
                late |= {n for _k, n in e[2]}
                if pending[e[1]][2] == 0:
                    feats.add('peer-request-while-call-only-removes-file')
        elif e[0] == 'upfail' and e[1] in pending:
            feats.add('upload-failed-message-while-call-waits')
        elif e[0] == 'peerfail' and e[1] in returned and e[2] != e[3] and e[2] not in ('PAUSED',):
            feats.add('peer-refusal-handled-after-the-call-it-waited-for')
        elif e[0] == 'tend' and e[1] in late:
            feats.add('late-initialisation-' + ('refused' if e[2] == 'refused' else 'cancelled-by-remove'
                                                  if e[2] == 'cancelled' else 'ran'))
        elif e[0] == 'shares' and any(k in returned for k in e[2]):
            feats.add('shares-or-block-change-after-returned-call-on-upload')
    if any(e[0] == 'addFailed' for e in ev):
        feats.add('failed-without-reason-download')
    # round 4: work outside the negotiation; handlers suspended across a call
    pend2: dict = {}
    susp: dict = {}
    for e in ev:
        if e[0] == 'end-of-window':
            break
        if e[0] == 'call':
            pend2[e[1]] = e
            if e[5] > 0:
                feats.add('call-while-upload-failed-message-pending')
                if e[2] == 'remove' and e[3] == 'FAILED':
                    feats.add('remove-of-FAILED-upload-while-its-failure-message-is-pending')
            for k2 in susp:
                if k2 == e[1]:
                    susp[k2] = 'called'
        elif e[0] in ('resume', 'call-refused'):
            pend2.pop(e[1], None)
            if e[0] == 'resume' and susp.get(e[1]) == 'called':
                susp[e[1]] = 'returned'
        elif e[0] == 'upq-start':
            susp[e[1]] = 'open'
            if e[1] in pend2:
                feats.add('upload-peer-message-while-call-waits')
        elif e[0] == 'upq':
            if susp.pop(e[1], None) == 'returned':
                feats.add('peer-queue-handler-suspended-across-returned-call')
                if not e[4]:
                    feats.add('peer-queue-handler-resumed-after-remove-returned')
            if e[2] in ('FAILED', 'COMPLETE') and e[3] == 'QUEUED' and e[4]:
                feats.add('peer-requeues-upload')
        elif e[0] in ('upreq', 'placereq') and e[1] in pend2:
            feats.add('upload-peer-message-while-call-waits')
        elif e[0] == 'upfail' and e[1] in pend2 and pend2[e[1]][3] == 'INCOMPLETE' and pend2[e[1]][4] > 0:
            feats.add('upload-failed-message-while-call-waits-for-retry-of-INCOMPLETE')
        elif e[0] == 'status' and any(k2 in pend2 for k2 in e[2]):
            feats.add('peer-status-while-call-waits')
        elif e[0] == 'aux':
            feats.add('upload-failed-message-' + ('delivered' if e[3] == 'ok' else 'undeliverable'))
        elif e[0] == 'tend' and e[2] == 'failing':
            feats.add('transfer-failed-by-its-own-task')
    if any(s.get('aux') for s in impl['snaps']):
        feats.add('upload-FAILED-with-failure-message-pending')
    # a cycle between a task end and its callback
    ended = set()
    for e in ev:
        if e[0] == 'tend' and e[2] != 'transferring':
            ended.add(e[1])
        elif e[0] == 'tcb':
            ended.discard(e[1])
        elif e[0] == 'cycle' and ended:
            feats.add('cycle-between-task-end-and-callback')
    # cycles while a task hangs
    hanging = set()
    for e in ev:
        if e[0] == 'tstart':
            hanging.add(e[1])
        elif e[0] == 'tend' and e[2] != 'transferring':
            hanging.discard(e[1])
        elif e[0] == 'cycle' and hanging:
            feats.add('cycle-while-task-hangs')
    return feats


class C06(Property):
    id = 'C06'
    props_module = 'AioslskVerif.Props.C06'
    driver_module = 'AioslskVerif.Driver.C06'
    rule = ('family A: 1..2 peers x 1..3 transfers per peer (downloads, uploads), then 3..12 ops (thorough ..20) '
            'out of: cycle request, the pending network step of a transfer task succeeds / fails (optionally with a cycle '
            'request in the same step), peer transfer request, abort / pause / remove as its own task with a cycle request '
            '0..4 loop iterations later, re-queue, waits up to 61 s; delays from {0, .02, .05, .1, .3, 5} s. Family B (windows '
            'of a suspended call): the call gets peer events for its transfer (PeerTransferRequest, PeerTransferQueueFailed, '
            'PeerUploadFailed) and cycle requests in the same step / 0..5 loop iterations later, for abort / pause / remove '
            'from QUEUED with a hanging attempt, INCOMPLETE with a hanging retry, INCOMPLETE / QUEUED remotely queued with '
            'nothing in flight (the call is then suspended only by the removal of the local file: executor calls take 1..3 '
            'iterations), both slots occupied, FAILED-without-reason downloads being retried (attempt hanging / failed / '
            'delivered); a cancelled network step takes 0..3 iterations to unwind. Family C (monitor-only): uploads, a call, '
            'then block / unblock of the peer and unshare / reshare of the file through the real manage_shares_changed. '
            'Family D (work outside the negotiation): uploads that get through to UPLOADING and hit a write error - FAILED '
            'while their task still delivers PeerUploadFailed over a slow connection (every message naming the file is a '
            'gate) - then remove, or PeerTransferQueue from the peer (FAILED -> QUEUED) and abort / pause / remove, the '
            'connection getting through or failing only afterwards. Family E (suspended handlers): PeerTransferQueue / '
            'PeerTransferRequest for an upload in FAILED / COMPLETE / QUEUED / INITIALIZING / UPLOADING / ABORTED state whose '
            'handler waits 1..3 iterations for the shares manager, abort / pause / remove called 0..3 iterations into that. '
            'In families B, D, E a call gets every message the manager has a handler for (downloads: + PeerPlaceInQueueReply, '
            'the peer going offline; uploads: PeerTransferQueue, PeerTransferRequest, PeerPlaceInQueueRequest) 0..5 '
            'iterations after it started. Observation window 120 virtual seconds; derived from VERIF_SEED. Non-trivial: a '
            'call returned AND (a cycle ran while a task was hanging, or while the call was waiting, or between a task end '
            'and its done-callback, or a peer / server message for the transfer arrived while the call was waiting, or a '
            'handler was suspended across the call, or the call was made while a failure message of the upload was pending, '
            'or the block list / shares changed after the call on an upload returned); distinct = distinct canonical case. '
            'Coverage floors: 20 situations the directed cases reach on every run must be seen, otherwise the '
            'correspondence is reported as not checking')
    assumptions = [
        'the network is a scripted stub at the level of send_peer_messages / create_peer_connection / response futures: a '
        '"connection attempt" is the call, a "frame" is its successful return (real sockets / FakeNet are not used here)',
        'peer transfer requests for one file are separated by at least one loop iteration; the direct effect of a peer '
        'message injected by the schedule (e.g. PAUSED -> FAILED by PeerTransferQueueFailed, remotely_queued reset by '
        'PeerUploadFailed, the allowed=False answer to a PeerTransferRequest) is outside the property and ends / does not '
        'count in the observation window; what the library then does on its own is inside',
        'a change of the block list / the shares is a user action on the uploads it covers, except for an upload the user '
        'aborted or removed: blocking + unblocking (unsharing + resharing) must not bring such an upload back',
        'TransferManager.queue is only called from the states its docstring lists; no two calls overlap on one transfer; '
        'a user status change is generated as the GetUserStatus message only (reset of remotely_queued for every download '
        'of the peer, a direct effect like PeerUploadFailed); the user object the scheduler looks at stays UNKNOWN (C05)',
        'PeerTransferQueue for an upload that is in the list and FAILED / COMPLETE is the peer legitimately re-queuing it '
        '(ends the window); for a transfer that left the list the handler has nothing to re-queue (the file is then queued '
        'as a NEW transfer, which is not the removed object); answers written to the connection the peer\'s own message came '
        'in on (PeerTransferReply, PeerTransferQueueFailed, PeerPlaceInQueueReply) are direct effects of that message',
        'a library task is attributed to a transfer by what its coroutine was given at creation or by the task / action '
        'that created it; a task that reaches the transfer only through a closure created elsewhere is not attributed',
        'asyncio semantics (cancellation delivered at the next step of the task, done-callbacks one iteration later) are '
        'modelled as ops and validated only differentially',
    ]
    modelled = ('manage_transfers spawn guards, the two task slots, cancel_tasks, the done-callbacks, abort/pause/remove as '
                'call + return with arbitrary interleaving, _queue_remotely / _initialize_upload / _initialize_download '
                'collapsed to first step / end with outcome, peer transfer request (also while a call holds the state lock: '
                'the late initialisation blocks on the lock and is refused / cancelled by remove), the two phases of remove, '
                'PeerTransferQueueFailed, PeerUploadFailed (also as the reset a status change makes), re-queue, '
                'FAILED-without-reason downloads, `state.fail()` inside a task that goes on (FAILED upload still delivering '
                'PeerUploadFailed: a live slot task), PeerTransferQueue for a listed upload as arrival + resumption of the '
                'handler (re-look-up; re-queue of FAILED / COMPLETE). Not modelled: which transfers a cycle selects (C05; a '
                'parameter of the op here), manage_shares_changed (C08; exercised monitor-only), file removal (exercised: '
                'executor calls suspend), PeerTransferRequest(upload) / place-in-queue messages (no effect on the modelled '
                'fields; exercised), the inventory of tasks outside the slots (monitor: the model has none by construction)')

    def _cases(self, seed, tier, widen):
        rng = random.Random(f'C06-{seed}')
        n = (600 if tier == 'quick' else 9000) * widen
        m = (900 if tier == 'quick' else 13000) * widen
        mx = 12 if tier == 'quick' else 20
        cases = list(DIRECTED) + [_gen_case(rng, mx) for _ in range(n)]
        return cases + [_gen_window_case(rng, 8 if tier == 'quick' else 12) for _ in range(m)]

    def correspondence(self, seed, tier, model_ok, widen=1):
        res = KResult()
        cases = self._cases(seed, tier, widen)
        impl, skipped = _eval_all(cases)
        if skipped:
            res.notes.append(f'{skipped} cases not run: {MAX_HANGS} cases did not come to rest on the real code')
            res.count('skipped-after-hangs', skipped)
            cases = cases[:len(impl)]
        # an exception while DRIVING the implementation (the harness reaches into the library from outside: a renamed
        # private name breaks it as well as a defect would) is not a failing input: `…impl-error` is reported by
        # vlib/common as a correspondence that no longer checks
        bad = [(c, io) for c, io in zip(cases, impl) if io.get('harness_error')]
        for c, io in bad[:20]:
            res.violations.append(Violation('C06-harness-impl-error', f'{io["harness_error"]} | {(io.get("tb") or "")[-600:]}', c))
        if bad:
            res.count('could-not-be-driven', len(bad))
            keep = [i for i, io in enumerate(impl) if not io.get('harness_error')]
            cases = [cases[i] for i in keep]
            impl = [impl[i] for i in keep]
        model = None
        scripts = []
        if model_ok:
            lines, spans = [], []
            for c, io in zip(cases, impl):
                # monitor-only cases (block list / shares changes: the library's own abort / re-queue of uploads is not
                # part of this model, see C08) are not fed to the driver
                ls, want = _script(io) if c.get('model', True) and not io.get('hang') else ([], [])
                scripts.append((ls, want))
                lines.append('reset')
                spans.append((len(lines), len(ls)))
                lines += ls
            out = common.run_driver(self.driver_file, lines)
            model = [out[a:a + k] for a, k in spans]
        else:
            res.model_available = False
        for i, c in enumerate(cases):
            res.evaluations += 1
            io = impl[i]
            res.count('profile:' + c.get('kind', '?'))
            for op in c['ops']:
                res.count('op:' + op[0])
            feats = _features(c, io)
            for f in feats:
                res.count('feature:' + f)
            if any(f.startswith('call-returned') for f in feats) and feats & {
                    'cycle-while-task-hangs', 'cycle-while-call-waits', 'cycle-between-task-end-and-callback',
                    'peer-request-while-call-waits', 'upload-failed-message-while-call-waits',
                    'peer-refusal-handled-after-the-call-it-waited-for',
                    'shares-or-block-change-after-returned-call-on-upload',
                    'call-while-upload-failed-message-pending', 'upload-peer-message-while-call-waits',
                    'peer-queue-handler-suspended-across-returned-call', 'peer-status-while-call-waits'}:
                res.nontrivial_keys.add(common.sha(c['ops']))
            if c.get('model', True) is False:
                res.count('monitor-only')
            elif model is not None and not io.get('hang'):
                res.traces_validated += 1
                ls, want = scripts[i]
                d = _compare(ls, want, model[i])
                if d is not None:
                    res.disagreements.append(Disagreement(c, d[2], d[3], f'line #{d[0]}: {d[1]}'))
            res.violations += _monitor(c, io)
            if len(res.samples) < 3 and c.get('kind', '').startswith('directed') and io['snaps']:
                res.samples.append({'case': c, 'final': io['snaps'][-1]['snap']})
        # Coverage floors.  The directed cases reach each of these situations on every run; when one is never seen the
        # harness has lost its grip on the code (e.g. a private name it reaches into was renamed and a step silently does
        # nothing any more) and a green run would mean nothing: the correspondence does not check.
        if not skipped and not bad and not any(io.get('hang') for io in impl):
            for f in FLOORS:
                if not res.distribution.get('feature:' + f):
                    res.disagreements.append(Disagreement(
                        {'coverage-floor': f}, 'never reached in this run', 'reached by a directed case on every run',
                        'harness: a situation the check is built to reach was not reached (harness or code changed)'))
        return res

    def replay(self, case):
        _preload()
        io = _eval_case(case)
        if io.get('harness_error'):
            raise RuntimeError(io['harness_error'] + '\n' + io.get('tb', ''))
        return _monitor(case, io)

    def known_witnesses(self):
        return []


PROPERTY = C06()
