"""C03 — transfer state changes follow the documented graph: correspondence K_C03 + monitor (DESIGN.md, C03).

A case is a schedule over ONE real `Transfer` object (subclassed only to record who writes what), added to a real
`TransferManager` (subclassed only to record what its own listener is told; its jobs are never started):

    {'dir', 'state', 'slow_cancel', 'slow_fs', 'ls': [[gated, yields], …], 'k', 'init': {...}, 'steps': [[action…], …],
     'stubborn': 0|1 (optional), 'load': {'legacy': {...}|None} (optional)}

With `load`, the transfer the schedule runs on is not built in place: a transfer in state `state` with the fields of `init` is
added to a first `TransferManager` and written to a real shelve cache by the real `write_cache()` (optionally rewritten
the way an older release would have left it: no `abort_reason`, an `_offset`, the pre-fix key), and a SECOND manager on
the same cache reads it back with the real `read_cache()`; the listeners are attached at `TransferAddedEvent` — as early
as the API allows — and everything they are told from then on is judged. The schedule then runs on the loaded object.

`transfer.state_listeners` = the manager's own listener (number 0, as `TransferManager.add` registers it) followed by
one application listener per entry of `ls`, in that order: `gated` = it suspends until a `resume`, `yields` = it then
suspends for that many loop iterations (a list = one entry per invocation, cycled: a listener that is slow the first
time and quick the next). (Older cases say `slow_listener`, `ly` instead of `ls`: one such listener.)

Every step = its actions, then the loop is run until nothing more can happen, then one observation.
Actions: ['call', id, method, reason, remotely] (`transfer.state.<method>(…)` evaluated AND scheduled now),
['create', …] (evaluated now — the state object is looked up — scheduled by a later ['start', id], as
manager.py:586-589 does with gather), ['mcall', id, method] (`TransferManager.abort/queue/pause(transfer)` on the real
manager object), ['pcall', id, reason] (the real `TransferManager._on_peer_transfer_queue_failed` handles the peer's message
for this download), ['resume']
(the slow step the lock holder is suspended in finishes: cancelled tasks end / file system answers / listener
returns), ['spawn', which] (fresh tasks are attached), ['setfile'],
['cancel', id] (the task that awaits call `id` is cancelled — `task.cancel()`, which is also what the time-out of an
`asyncio.wait_for` around the request does — wherever that call is suspended: waiting for the lock, in the slow task
cancellation, in the file-system call, inside a listener), ['reload'] (`write_cache()` then `read_cache()` on the same
manager: what stop/start of a client does to a transfer that is still held), ['fsfault', n] (a fault of the environment:
from now on the file system refuses to remove the local file — `aiofiles.os.remove` raises an `OSError`, n = 1
permission denied, 2 the path is a directory, 3 read-only file system, 4 busy — until ['fsfault', 0]; it may be switched
while a request is suspended in front of the file-system call).
`stubborn` = a cancelled task that is cancelled again (which is what cancelling the `gather` waiting for it does) does
not end any sooner.
"""
from __future__ import annotations

import asyncio
import contextvars
import logging
import copyreg
import errno
import hashlib
import os
import pickle
import random
import shelve
import shutil
import tempfile
import types

from vlib import common, simloop
from vlib.common import KResult, Violation, Disagreement, Property
from translate import transfer_table

STATES = ['VIRGIN', 'QUEUED', 'INITIALIZING', 'INCOMPLETE', 'DOWNLOADING', 'UPLOADING', 'COMPLETE', 'FAILED',
          'ABORTED', 'PAUSED']
METHODS = ['fail', 'abort', 'queue', 'initialize', 'complete', 'incomplete', 'start_transferring', 'pause']
STATE_CLASS = {'VIRGIN': 'VirginState', 'QUEUED': 'QueuedState', 'INITIALIZING': 'InitializingState',
               'INCOMPLETE': 'IncompleteState', 'DOWNLOADING': 'DownloadingState', 'UPLOADING': 'UploadingState',
               'COMPLETE': 'CompleteState', 'FAILED': 'FailedState', 'ABORTED': 'AbortedState',
               'PAUSED': 'PausedState'}
# numbering of reason strings shared with the Lean driver (1 = AbortReason.REQUESTED, Model/Transfer.lean)
REASONS = {0: 'Blocked', 1: 'Requested', 2: 'Cancelled', 3: 'File not shared.', 4: 'File read error.', 5: 'Queued'}
REASON_NO = {v: k for k, v in REASONS.items()}
T0 = 1000.0
# ['fsfault', n]: what `os.remove` raises while the fault lasts (all of them OSError, as the file system raises them)
FS_FAULTS = {1: errno.EACCES, 2: errno.EISDIR, 3: errno.EROFS, 4: errno.EBUSY}
# the call on whose behalf code is running: set by the task that awaits the call, inherited by every task the real code
# creates on the way (gather / ensure_future / shield copy the context), so attribution does not depend on the code
# doing all its work in the caller's own task
_CALL = contextvars.ContextVar('c03_call', default=None)
logging.getLogger('aioslsk').setLevel(logging.CRITICAL + 1)      # refusals log a warning each

# ---- the documented graph, as the monitor reads it (the frozen Lean spec is cross-checked against this
# ---- on every run through the driver's `spec` op)
_COMMON = {
    'VIRGIN': ['QUEUED', 'PAUSED'],
    'QUEUED': ['INITIALIZING', 'FAILED', 'ABORTED', 'PAUSED'],
    'DOWNLOADING': ['FAILED', 'COMPLETE', 'ABORTED', 'PAUSED', 'INCOMPLETE'],
    'UPLOADING': ['FAILED', 'COMPLETE', 'ABORTED', 'PAUSED'],
    'COMPLETE': ['QUEUED'],
    'INCOMPLETE': ['FAILED', 'QUEUED', 'INITIALIZING', 'ABORTED', 'PAUSED'],
    'FAILED': ['QUEUED'],
    'PAUSED': ['QUEUED', 'ABORTED', 'FAILED'],
    'ABORTED': ['QUEUED'],
}
SPEC_EDGES = {
    'upload': {(a, b) for a, bs in {**_COMMON, 'INITIALIZING': ['QUEUED', 'FAILED', 'ABORTED', 'PAUSED', 'UPLOADING']}.items() for b in bs},
    'download': {(a, b) for a, bs in {**_COMMON, 'INITIALIZING': ['QUEUED', 'FAILED', 'ABORTED', 'PAUSED', 'DOWNLOADING']}.items() for b in bs},
}


def spec_target(d: str, m: str) -> str:
    return {'fail': 'FAILED', 'abort': 'ABORTED', 'queue': 'QUEUED', 'initialize': 'INITIALIZING',
            'complete': 'COMPLETE', 'incomplete': 'INCOMPLETE', 'pause': 'PAUSED',
            'start_transferring': 'UPLOADING' if d == 'upload' else 'DOWNLOADING'}[m]


WATCHED = ('state', 'local_path', 'remotely_queued', 'place_in_queue', 'fail_reason', 'abort_reason', 'filesize',
           'bytes_transfered', 'queue_attempts', 'last_queue_attempt', 'upload_request_attempts',
           'last_upload_request_attempt', 'start_time', 'complete_time')


class _Gate:
    """What a slow step waits for; opened by a `resume` action."""

    def __init__(self, loop):
        self.loop = loop
        self.waiting = []
        self.closing = False      # end of the case: nothing waits any more

    async def wait(self):
        if self.closing:
            return
        fut = self.loop.create_future()
        self.waiting.append(fut)
        await fut

    def open(self):
        w, self.waiting = self.waiting, []
        for f in w:
            if not f.done():
                f.set_result(None)


def _listeners(case: dict) -> list:
    """[gated, yields] of every application listener, in registration order (after the manager's own)."""
    if 'ls' in case:
        return [[int(bool(g)), [int(v) for v in (y if isinstance(y, list) else [y])] or [0]] for g, y in case['ls']]
    return [[int(bool(case.get('slow_listener'))), [int(case.get('ly', 0))]]]


_SETTINGS = None


def _settings():
    global _SETTINGS
    if _SETTINGS is None:
        from aioslsk.settings import Settings
        _SETTINGS = Settings(credentials={'username': 'me', 'password': 'pw'})
    return _SETTINGS


def _reason_code(v):
    if v is None:
        return '-'
    return str(REASON_NO[v]) if v in REASON_NO else '?' + repr(v)


def _time_code(v):
    if v is None:
        return '-'
    d = v - T0
    return str(int(d)) if d == int(d) else repr(d)


async def _scenario(loop, case, path):
    loop.executor_suspends = bool(case.get('exsusp')) or loop.executor_suspends
    from aioslsk.transfer.model import Transfer, TransferDirection
    from aioslsk.transfer import state as st_mod
    from aioslsk.transfer.manager import TransferManager
    from aioslsk.events import EventBus
    from aioslsk.exceptions import InvalidStateTransition
    import aiofiles.os as real_asyncos

    from aioslsk.transfer.cache import TransferShelveCache
    from aioslsk.events import TransferAddedEvent
    from aioslsk.protocol.messages import PeerTransferQueueFailed

    log = []            # chronological: dicts {kind, who, …, fx}
    gate = _Gate(loop)
    rec = {'on': False}
    env = {'fsfault': 0}      # the fault of the file system that is on at the moment (0 = none)
    cell = {'t': None, 'closing': False}      # the transfer under observation (copies read from the cache are not)
    cdir = os.path.dirname(path)

    def who():
        return _CALL.get()

    def add(kind, **kw):
        if cell['closing']:         # the case is over: what happens while the harness tears it down is not observed
            return
        kw.update(kind=kind, who=kw.get('who', who()), fx=os.path.exists(path))
        log.append(kw)

    class RecTransfer(Transfer):
        """The real Transfer; attribute writes and cancel_tasks() are recorded with the task that made them."""

        def __setattr__(self, k, v):
            if rec['on'] and k in WATCHED and self is cell['t']:
                old = self.__dict__.get(k)
                if k == 'state':
                    o, n = getattr(old, 'VALUE', None), getattr(v, 'VALUE', None)
                    add('write', field=k, old=getattr(o, 'name', None), new=getattr(n, 'name', None))
                elif old != v:
                    add('write', field=k, old=repr(old), new=repr(v))
            object.__setattr__(self, k, v)

        def cancel_tasks(self):
            live = [t for t in self.get_tasks() if not t.done()]
            if rec['on'] and self is cell['t']:
                add('cancel', live=len(live))
            return super().cancel_tasks()

    class RecCache(TransferShelveCache):
        """The real shelve cache. What it stores are plain `Transfer` pickles (the recording subclass is taken off for the
        duration of the write); what it reads is given the recording subclass so that writes to it are seen."""

        def write(self, transfers):
            tagged = [x for x in transfers if type(x) is RecTransfer]
            for x in tagged:
                x.__class__ = Transfer
            try:
                return super().write(transfers)
            finally:
                for x in tagged:
                    x.__class__ = RecTransfer

        def read(self):
            objs = super().read()
            for o in objs:
                if type(o) is Transfer:
                    o.__class__ = RecTransfer
            if cell['t'] is None and len(objs) == 1:
                cell['t'] = objs[0]
            return objs

    class Listener:
        """An application listener (`TransferStateListener` is a public protocol): records what it is told, then
        suspends as the case says."""

        def __init__(self, li, gated, yields):
            self.li, self.gated, self.yields, self.n = li, gated, yields, 0

        async def on_transfer_state_changed(self, transfer, old, new):
            add('event', li=self.li, old=old.name, new=new.name, cur=transfer.state.VALUE.name)
            y = self.yields[self.n % len(self.yields)]
            self.n += 1
            try:
                if self.gated:
                    await gate.wait()
                for _ in range(y):
                    await asyncio.sleep(0)
            finally:
                add('event-end', li=self.li)

    class RecManager(TransferManager):
        """The real manager; what its own listener (number 0 of every transfer it holds) is told is recorded."""

        async def on_transfer_state_changed(self, transfer, old, new):
            add('event', li=0, old=old.name, new=new.name, cur=transfer.state.VALUE.name)
            try:
                return await super().on_transfer_state_changed(transfer, old, new)
            finally:
                add('event-end', li=0)

    # file system as state.py sees it: recorded, and slow when the case says so
    async def rec_exists(p):
        if case.get('slow_fs'):
            add('fs-wait')
            await gate.wait()
        return await real_asyncos.path.exists(p)

    async def rec_remove(p):
        if env['fsfault']:
            # the file system refuses: nothing is removed (not a side effect — an attempt)
            add('rm-fail', path=os.path.basename(str(p)), errno=FS_FAULTS[env['fsfault']])
            raise OSError(FS_FAULTS[env['fsfault']], os.strerror(FS_FAULTS[env['fsfault']]), str(p))
        add('rm', path=os.path.basename(str(p)))
        return await real_asyncos.remove(p)

    fake_asyncos = types.SimpleNamespace(
        path=types.SimpleNamespace(exists=rec_exists), remove=rec_remove)

    async def dummy():
        try:
            await loop.create_future()
        except asyncio.CancelledError:
            if case.get('slow_cancel'):
                while True:
                    try:
                        await gate.wait()
                        break
                    except asyncio.CancelledError:      # cancelled again while winding down
                        if not case.get('stubborn'):
                            raise
            for _ in range(case.get('k', 0)):
                await asyncio.sleep(0)
            raise

    direction = TransferDirection.UPLOAD if case['dir'] == 'upload' else TransferDirection.DOWNLOAD
    t = RecTransfer('user', 'remote\\path\\f.bin', direction)
    ini = case['init']
    t.state = getattr(st_mod, STATE_CLASS[case['state']])(t)
    t.fail_reason = REASONS[ini['fr']] if ini.get('fr') is not None else None
    t.abort_reason = REASONS[ini['ar']] if ini.get('ar') is not None else None
    t.remotely_queued = bool(ini.get('rq'))
    t.place_in_queue = ini.get('piq')
    t.queue_attempts = ini.get('qa', 0)
    t.last_queue_attempt = float(ini.get('qa', 0))
    t.upload_request_attempts = ini.get('ua', 0)
    t.last_upload_request_attempt = float(ini.get('ua', 0))
    t.start_time = T0 + ini['st'] if ini.get('st') is not None else None
    t.complete_time = T0 + ini['ct'] if ini.get('ct') is not None else None
    t.filesize = 1000 if ini.get('fs') else None
    t.bytes_transfered = ini.get('b', 0)
    if ini.get('file') in ('path', 'file'):
        t.local_path = path
    if ini.get('file') == 'file':
        with open(path, 'wb') as fh:
            fh.write(b'x' * 10)

    dummies = []

    def spawn(which):
        # while a cancellation is still in flight the slots are not re-filled (the model has one `tasksLive` flag)
        if any(not x.done() and x.cancelling() for x in t.get_tasks()):
            return
        if which in ('transfer', 'both') and (t._transfer_task is None or t._transfer_task.done()):
            t._transfer_task = loop.create_task(dummy())
            dummies.append(t._transfer_task)
            t._transfer_task.add_done_callback(t._transfer_task_complete)
        if which in ('queue', 'both') and (t._remotely_queue_task is None or t._remotely_queue_task.done()):
            t._remotely_queue_task = loop.create_task(dummy())
            dummies.append(t._remotely_queue_task)
            t._remotely_queue_task.add_done_callback(t._remotely_queue_task_complete)

    listeners = [Listener(i + 1, g, y) for i, (g, y) in enumerate(_listeners(case))]
    ns = types.SimpleNamespace
    saved_asyncos = st_mod.asyncos
    crash = None
    if case.get('load') is None:
        cell['t'] = t
        spawn(ini.get('tasks', 'none'))
        # the real manager (jobs not started, collaborators absent: abort/queue/pause do not use them); `add` registers
        # the manager as the transfer's first state listener
        bus = EventBus()
        mgr = RecManager(_settings(), bus, ns(), ns(), ns(), cache=RecCache(cdir))
        await mgr.add(t)
        add('reg', who=None, li=0, cur=t.state.VALUE.name)
        for l in listeners:
            t.state_listeners.append(l)
            add('reg', who=None, li=l.li, cur=t.state.VALUE.name)
        await simloop.settle()          # the dummy tasks reach their await
        st_mod.asyncos = fake_asyncos
        rec['on'] = True
    else:
        # session 1: the record is written by the real write_cache of a first manager
        first = TransferManager(_settings(), EventBus(), ns(), ns(), ns(), cache=RecCache(cdir))
        await first.add(t)
        first.write_cache()
        if case['load'].get('legacy'):
            _legacy_rewrite(cdir, case['load']['legacy'])
        # session 2: a new manager on the same cache; the application attaches its listeners when it is told about the
        # transfer (TransferAddedEvent is emitted by `add` right after the manager registered itself)
        bus = EventBus()

        async def on_added(event):
            tr = event.transfer
            if cell['t'] is None:
                cell['t'] = tr
            if tr is cell['t']:
                add('reg', who=None, li=0, cur=tr.state.VALUE.name)
                for l in listeners:
                    tr.state_listeners.append(l)
                    add('reg', who=None, li=l.li, cur=tr.state.VALUE.name)
        bus.register(TransferAddedEvent, on_added)
        mgr = RecManager(_settings(), bus, ns(), ns(), ns(), cache=RecCache(cdir))
        t = None
        st_mod.asyncos = fake_asyncos
        rec['on'] = True
        try:
            await mgr.read_cache()
            await simloop.settle()
        except Exception as e:      # the real read_cache raised: an observation
            crash = f'read_cache raised {type(e).__name__}: {e}'
        t = cell['t'] if cell['t'] is not None and cell['t'] in mgr.transfers else None
        if t is None and crash is None:
            crash = f'read_cache did not add the stored transfer ({len(mgr.transfers)} transfers held)'
        if crash is not None:
            rec['on'] = False
            st_mod.asyncos = saved_asyncos
            return {'lines': ['EXC ' + crash], 'log': log, 'crash': crash}
        spawn(ini.get('tasks', 'none'))
        await simloop.settle()
    created = {}        # id -> coroutine object not yet scheduled
    runners = []
    lines = []
    ev_seen = ret_seen = 0

    async def runner(cid, coro, mgr):
        _CALL.set(cid)          # this task's own context (a task runs in a copy of its creator's)
        try:
            r = await coro
            if mgr == 'peer' and r is None:
                code = 'P'          # a message handler: it does not report whether the request was refused
            elif r is True or (mgr and r is None):
                code = 'T'
            elif r is False:
                code = 'F'
            else:
                code = '?' + repr(r)
        except InvalidStateTransition:
            code = 'R'
        except asyncio.CancelledError:
            if cell['closing']:
                raise
            code = 'C'              # the caller was cancelled (a `cancel` action): that is what it is told
        except Exception as e:       # the real code raised: an observation
            code = 'E' + type(e).__name__
        add('ret', who=cid, code=code, cur=t.state.VALUE.name)

    async def reloader():
        try:
            mgr.write_cache()
            await mgr.read_cache()
        except Exception as e:       # the real code raised: an observation
            add('ret', who='reload', code='E' + type(e).__name__, cur=t.state.VALUE.name)

    def make(meth, reason, remotely):
        """Evaluate `transfer.state.<meth>(…)` — looks the state object up now; runs nothing yet."""
        if meth not in METHODS:
            return None
        bound = getattr(t.state, meth)
        if meth in ('fail', 'abort'):
            return bound(reason=REASONS[reason]) if reason is not None else bound()
        if meth == 'queue':
            return bound(remotely=True) if remotely else bound()
        return bound()

    runner_of = {}
    fresh = set()

    def schedule(cid, coro, mgr):
        add('sched', who=cid, mgr=bool(mgr))
        task = loop.create_task(runner(cid, coro, mgr))
        runners.append(task)
        runner_of[cid] = task
        fresh.add(cid)

    used = set()
    try:
        for si, step in enumerate(case['steps']):
            loop._vt = T0 + si + 1
            fresh.clear()
            for a in step:
                kind = a[0]
                if kind in ('call', 'create'):
                    _, cid, meth, reason, remotely = a
                    if cid in used:
                        lines.append('err duplicate-id')
                        continue
                    coro = make(meth, reason, remotely)
                    if coro is None:
                        lines.append('err bad-arg')
                        continue
                    used.add(cid)
                    if kind == 'call':
                        schedule(cid, coro, False)
                    else:
                        created[cid] = coro
                    lines.append('ok')
                elif kind == 'start':
                    coro = created.pop(a[1], None)
                    if coro is None:
                        lines.append('err no-such-call')
                        continue
                    schedule(a[1], coro, False)
                    lines.append('ok')
                elif kind == 'mcall':
                    _, cid, meth = a
                    if cid in used:
                        lines.append('err duplicate-id')
                        continue
                    if meth not in METHODS:
                        lines.append('err bad-arg')
                        continue
                    if meth not in ('abort', 'queue', 'pause'):
                        lines.append('err not-a-manager-method')
                        continue
                    used.add(cid)
                    schedule(cid, getattr(mgr, meth)(t), True)
                    lines.append('ok')
                elif kind == 'pcall':
                    _, cid, reason = a
                    if cid in used:
                        lines.append('err duplicate-id')
                        continue
                    if case['dir'] != 'download':
                        lines.append('err not-a-download')
                        continue
                    used.add(cid)
                    msg = PeerTransferQueueFailed.Request(t.remote_path, REASONS[reason] if reason is not None else None)
                    schedule(cid, mgr._on_peer_transfer_queue_failed(msg, ns(username=t.username)), 'peer')
                    lines.append('ok')
                elif kind == 'cancel':
                    cid = a[1]
                    task = runner_of.get(cid)
                    if cid in fresh:
                        lines.append('err not-settled')
                    elif task is None or task.done():
                        lines.append('err not-in-flight')
                    else:
                        add('cancel-caller', who=cid)
                        task.cancel()
                        lines.append('ok')
                elif kind == 'reload':
                    runners.append(loop.create_task(reloader()))
                    lines.append('ok')
                elif kind == 'resume':
                    gate.open()
                    lines.append('ok')
                elif kind == 'spawn':
                    spawn(a[1])
                    lines.append('ok')
                elif kind == 'setfile':
                    rec['on'] = False
                    t.local_path = path
                    rec['on'] = True
                    with open(path, 'wb') as fh:
                        fh.write(b'y' * 10)
                    add('env', who=None)        # the environment changed the file: later entries compare to this one
                    lines.append('ok')
                elif kind == 'fsfault':
                    if len(a) != 2 or a[1] not in (0, *FS_FAULTS):
                        lines.append('err bad-arg')
                        continue
                    env['fsfault'] = a[1]
                    add('fault', who=None, on=a[1])
                    lines.append('ok')
                else:
                    lines.append('err bad-op')
            await simloop.settle()
            evs = [e for e in log if e['kind'] == 'event']
            rets = [e for e in log if e['kind'] == 'ret']
            ev_s = ','.join(f"{e['li']}:{e['old']}>{e['new']}" for e in evs[ev_seen:]) or '-'
            ret_s = ','.join(f"{e['who']}:{e['code']}" for e in rets[ret_seen:]) or '-'
            ev_seen, ret_seen = len(evs), len(rets)
            lock = t._state_lock
            waiters = [w for w in (getattr(lock, '_waiters', None) or []) if not w.done()]
            live = any(not x.done() for x in t.get_tasks())
            lines.append(
                f"{t.state.VALUE.name} lock={int(lock.locked())} w={len(waiters)} ev={ev_s} ret={ret_s} "
                f"fr={_reason_code(t.fail_reason)} ar={_reason_code(t.abort_reason)} rq={int(bool(t.remotely_queued))} "
                f"piq={'-' if t.place_in_queue is None else t.place_in_queue} qa={t.queue_attempts} "
                f"ua={t.upload_request_attempts} st={_time_code(t.start_time)} ct={_time_code(t.complete_time)} "
                f"lp={int(t.local_path is not None)} fx={int(os.path.exists(path))} fs={int(t.filesize is not None)} "
                f"b={t.bytes_transfered} tl={int(live)}")
            add('obs', who=None, step=si, cur=t.state.VALUE.name, gated=sum(1 for f in gate.waiting if not f.done()))
    finally:
        rec['on'] = False
        cell['closing'] = True
        st_mod.asyncos = saved_asyncos
        for c in created.values():
            c.close()
        gate.closing = True
        gate.open()
        for x in runners + dummies:
            x.cancel()
        await asyncio.gather(*runners, *dummies, return_exceptions=True)
    return {'lines': lines, 'log': log}


async def _scenario_many(loop, case, cdir):
    """Monitor-only: a cache holding SEVERAL transfers (any mix of directions and states, some as an older release wrote
    them) is read by the real `read_cache` of a new manager; every transfer gets the manager's own listener and one
    application listener attached at its TransferAddedEvent; then one manager request is made of every transfer."""
    from aioslsk.transfer.model import Transfer, TransferDirection
    from aioslsk.transfer.state import TransferState
    from aioslsk.transfer.manager import TransferManager
    from aioslsk.transfer.cache import TransferShelveCache
    from aioslsk.events import EventBus, TransferAddedEvent
    from aioslsk.exceptions import InvalidStateTransition
    ns = types.SimpleNamespace
    first = TransferManager(_settings(), EventBus(), ns(), ns(), ns(), cache=TransferShelveCache(cdir))
    idents = []
    for i, r in enumerate(case['records']):
        direction = TransferDirection.UPLOAD if r['dir'] == 'upload' else TransferDirection.DOWNLOAD
        t = Transfer(f'user{i % 3}', f'remote\\path\\f{i}.bin', direction)
        t.state = TransferState.init_from_state(TransferState.State[r['state']], t)
        t.filesize = 1000 if r.get('fs') else None
        t.bytes_transfered = r.get('b', 0)
        t.start_time = T0 if r['state'] in ('DOWNLOADING', 'UPLOADING', 'COMPLETE', 'INCOMPLETE') else None
        t.fail_reason = 'Cancelled' if r['state'] == 'FAILED' else None
        t.abort_reason = 'Requested' if r['state'] == 'ABORTED' else None
        t.remotely_queued = bool(i % 2)
        await first.add(t)
        idents.append((t.username, t.remote_path, direction.value))
    first.write_cache()
    for ident, r in zip(idents, case['records']):
        if r.get('legacy'):
            _legacy_rewrite(cdir, r['legacy'], ident)

    def key(tr):
        return f'{tr.username}|{tr.remote_path}|{tr.direction.name.lower()}'
    told, seen, keep = {}, {}, []

    class L:
        def __init__(self, k, li, y):
            self.k, self.li, self.y = k, li, y

        async def on_transfer_state_changed(self, transfer, old, new):
            told[self.k].append([self.li, old.name, new.name])
            for _ in range(self.y):
                await asyncio.sleep(0)

    class RecMgr(TransferManager):
        async def on_transfer_state_changed(self, transfer, old, new):
            told.setdefault(key(transfer), []).append([0, old.name, new.name])
            return await super().on_transfer_state_changed(transfer, old, new)

    async def on_added(event):
        tr = event.transfer
        k = key(tr)
        seen[k] = tr.state.VALUE.name
        told.setdefault(k, [])
        l = L(k, 1, case.get('yield', 0))
        keep.append(l)
        tr.state_listeners.append(l)
    bus = EventBus()
    bus.register(TransferAddedEvent, on_added)
    mgr = RecMgr(_settings(), bus, ns(), ns(), ns(), cache=TransferShelveCache(cdir))
    await mgr.read_cache()
    await simloop.settle()
    if case.get('follow'):
        for tr in list(mgr.transfers):
            try:
                await getattr(mgr, case['follow'])(tr)
            except InvalidStateTransition:
                pass
        await simloop.settle()
    return {'lines': [], 'log': [], 'many': {'told': told, 'seen': seen, 'held': len(mgr.transfers)}}


def _monitor_many(case: dict, res: dict) -> list[Violation]:
    """Sentence (1) of the property for every transfer read from the cache: every pair a listener is told is a documented
    edge for that transfer's direction, and each listener's pairs chain from the state the transfer was in when
    TransferAddedEvent was emitted."""
    vs = []
    if res.get('crash'):
        return [Violation('C03-impl-error', 'reading the cache raised: ' + res['crash'], case)]
    many = res['many']
    for k, pairs in many['told'].items():
        d = k.rsplit('|', 1)[1]
        last = {}
        for li, a, b in pairs:
            who = "the manager's own listener" if li == 0 else 'the application listener attached at TransferAddedEvent'
            if (a, b) not in SPEC_EDGES[d]:
                vs.append(Violation('C03-undocumented-edge',
                                    f"{d} read from the cache ({k}): {who} was told {a} -> {b}, not an edge of the documented graph",
                                    case, observed=f'{a}>{b}', required='an edge of Spec/TransferGraph.lean'))
            before = last.get(li, many['seen'].get(k))
            if before is not None and a != before:
                vs.append(Violation('C03-listener-sequence-broken',
                                    f"{d} read from the cache ({k}): {who} was told {a} -> {b} although the last state it "
                                    f"knew of was {before}: it observed an unannounced change {before} -> {a}", case,
                                    observed=pairs, required='each pair starts in the state the previous pair ended in'))
            last[li] = b
    return vs[:4]


def _loadmany_cases(rng, n: int) -> list[dict]:
    out = []
    for i in range(n):
        recs = []
        for _ in range(rng.randint(2, 7)):
            recs.append({'dir': rng.choice(['upload', 'download']), 'state': rng.choice(STATES), 'fs': rng.randint(0, 1),
                         'b': rng.choice([0, 10, 1000]), 'legacy': rng.choice(LEGACIES + [None, None])})
        if i % 3 == 0:      # every state of one direction at once
            d = ('upload', 'download')[(i // 3) % 2]
            recs = [{'dir': d, 'state': s, 'fs': 1, 'b': rng.choice([10, 1000]), 'legacy': LEGACIES[j % len(LEGACIES)]}
                    for j, s in enumerate(STATES)]
        out.append({'kind': 'loadmany', 'dir': 'download', 'records': recs, 'yield': rng.choice([0, 0, 2]),
                    'follow': rng.choice(['queue', 'abort', 'pause', None]), 'steps': []})
    return out


def _run_impl(case: dict) -> dict:
    d = tempfile.mkdtemp(prefix='c03-')
    try:
        if case.get('kind') == 'loadmany':
            res, loop = simloop.run(_scenario_many, case, d, start=T0, wall_timeout=30.0)
            if loop.exceptions:
                res['loop_exceptions'] = loop.exceptions[:3]
            return res
        res, loop = simloop.run(_scenario, case, os.path.join(d, 'f.bin'), start=T0, wall_timeout=30.0)
        if loop.exceptions:
            res['loop_exceptions'] = loop.exceptions[:3]
        return res
    finally:
        shutil.rmtree(d, ignore_errors=True)


def _eval_case(case):
    try:
        return _run_impl(case)
    except Exception as e:       # the real code (or the schedule) blew up: an observation, not a crash
        return {'lines': [f'EXC {type(e).__name__}: {e}'], 'log': [], 'crash': f'{type(e).__name__}: {e}'}


# --------------------------------------------------------------------------------------------
# monitor: the property statement on the implementation trace (independent of the Lean model)
# --------------------------------------------------------------------------------------------

def _monitor(case: dict, res: dict) -> list[Violation]:
    if case.get('kind') == 'loadmany':
        return _monitor_many(case, res)
    return _monitor_one(case, res)


def _monitor_one(case: dict, res: dict) -> list[Violation]:
    """Exactly the two sentences of the property.
    (1) What listeners observe — EVERY registered listener (the manager's own and each application listener), each on
    its own record of the `(old, new)` pairs it was given: every pair is a documented edge (`C03-undocumented-edge`);
    every pair starts in the state the previous one ended in, the first one in the state the transfer was in when the
    listener was registered (for a transfer read from the cache: when `TransferAddedEvent` was emitted) — otherwise the
    listener has observed an unannounced jump (`C03-listener-sequence-broken`);
    and the listeners are told the same story: at any time one listener's record is a prefix of the other's, and when
    nothing is in flight (every issued call has returned, no listener is still running) the records are equal
    (`C03-listeners-told-differently`). These are `C03_concurrent`, `C03_each_listener_walk` and
    `C03_listeners_told_the_transitions` read on the real trace.
    One thing is NOT demanded, because the property does not: that a state change is announced to every listener when the
    caller that makes it is cancelled in the middle of announcing it (the unchanged code then simply leaves the loop over
    the listeners). The listeners that were not told are taken to have learned of that one change silently — it is
    judged as an edge through the listeners that were told — and everything above goes on from there
    (`C03_listener_told_subsequence`).
    (2) A call that returned False / raised InvalidStateTransition wrote no field, cancelled no live task, removed no
    file, notified nobody (`C03-refused-with-effect`); a call that is not allowed (by the documented graph, in the state
    the transfer is in) and changed nothing must not report success: a state method must return False
    (`C03-not-refused`), `TransferManager.abort/queue/pause` must raise InvalidStateTransition
    (`C03-manager-refusal-not-raised`). And the same sentence at the level of the single side effect: whatever is done on
    behalf of a request — a field written, a live task cancelled, the file removed, the state assigned — is done while
    the transfer is in a state in which that request is allowed (`C03-effect-without-allowed-request`): a request that
    is not allowed in the current state has no side effect, whether or not anybody is still waiting for its answer (its
    caller may have been cancelled or have timed out long ago). (Plus: a call must end in True/False/
    InvalidStateTransition or, when its caller was cancelled, CancelledError — not in another exception:
    `C03-impl-error`.)
    What is demanded of a request whose caller was cancelled is therefore exactly this and no more: every pair it makes
    listeners see is a documented edge, and each of its side effects happens in a state in which it is allowed. It need
    not be all-or-nothing (on the unchanged code a cancelled `abort()` of a DOWNLOADING transfer leaves it DOWNLOADING
    with its tasks cancelled: no edge was observed, the next request is served on DOWNLOADING), and it need not stop at
    the moment its caller is told (code that shields the whole request, lock included, is correct).
    A removal the file system refuses (`fsfault`: `os.remove` raises OSError) is an attempt, not a side effect (`rm-fail`
    in the log, never counted); what the property demands under such a fault is what it demands anyway: the request is
    either carried out or refused without having done anything — code that tries the removal first and refuses cleanly
    is correct, code that refuses after it has cancelled the tasks or written a timestamp is not
    (`C03-refused-with-effect`), code that lets the OSError escape after it has done so is not either (`C03-impl-error`).
    Deliberately NOT flagged here: an allowed request that is refused, a method that moves along a documented edge to
    a state it is not named after — those break `C03_table_complete` / `C03_table_sound` or the correspondence; a
    state change no listener is told about at all (the property speaks of what listeners observe)."""
    vs = []
    d = case['dir']
    log = res.get('log', [])
    n_listeners = 1 + len(_listeners(case))
    # listener number -> its record: the pairs it was given, in order — with, in their place, the changes it is known to
    # have missed because the caller announcing them was cancelled (entries [old, new, told?])
    told = {li: [] for li in range(n_listeners)}
    missed = {li: [] for li in range(n_listeners)}   # listener number -> [(call, (old, new))] missed so far, not yet placed
    registered = {}                                  # listener number -> the state the transfer was in when it was registered
    once = set()                                     # the per-listener clauses report their first failure only
    in_flight = running = 0                          # calls issued and not returned / listener invocations not ended
    is_mgr = {}
    cur = None                                       # the state of the transfer, followed through the assignments
    made = {}                                        # call -> the (old, new) it assigned
    told_by = {}                                     # call -> listeners it has told

    def lname(li):
        return "listener 0 (the manager's own)" if li == 0 else f'listener {li} (application)'

    def pairs(r):
        return [(a, b) for a, b, _ in r]

    def show(r):
        return [f'{a}>{b}' + ('' if t else ' (not told: the announcing caller was cancelled)') for a, b, t in r]

    def flag(sig, what, **kw):
        if sig not in once:
            once.add(sig)
            vs.append(Violation(sig, what, case, **kw))
    meth_of = {}
    for step in case['steps']:
        for a in step:
            if a[0] in ('call', 'create', 'mcall'):
                meth_of.setdefault(a[1], a[2])
            elif a[0] == 'pcall':
                meth_of.setdefault(a[1], 'fail')
    if res.get('crash'):
        vs.append(Violation('C03-impl-error', 'running the schedule raised: ' + res['crash'], case))
        return vs
    for i, e in enumerate(log):
        if e['kind'] == 'reg':
            registered[e['li']] = e['cur']
            if cur is None:
                cur = e['cur']
        elif e['kind'] == 'sched':
            in_flight += 1
            is_mgr[e['who']] = e.get('mgr', False)
        elif e['kind'] == 'ret':
            in_flight -= 1
        elif e['kind'] == 'event-end':
            running -= 1
        # ---- (2) at the level of the single side effect
        if registered and e['kind'] in ('write', 'rm', 'cancel') and e['who'] is not None and e['who'] in meth_of \
                and meth_of[e['who']] in METHODS and e['who'] not in made and (e['kind'] != 'cancel' or e['live'] > 0):
            cid, m = e['who'], meth_of[e['who']]
            here = e['old'] if (e['kind'] == 'write' and e['field'] == 'state') else cur
            if here is not None and (here, spec_target(d, m)) not in SPEC_EDGES[d]:
                desc = {'write': lambda: f"wrote {e['field']}: {e['old']} -> {e['new']}",
                        'rm': lambda: 'removed the local file',
                        'cancel': lambda: f"cancelled {e['live']} task(s)"}[e['kind']]()
                ended = next((x['code'] for x in log[:i] if x['kind'] == 'ret' and x['who'] == cid), None)
                flag('C03-effect-without-allowed-request',
                     f"{d}: on behalf of call {cid} ({m}) the code {desc} while the transfer was {here} — a state in which "
                     f"{m} is not allowed (no edge {here} -> {spec_target(d, m)})"
                     + (f"; the caller of that request had been told {'CancelledError' if ended == 'C' else ended} before"
                        if ended else ''),
                     observed={k: v for k, v in e.items() if k != 'fx'},
                     required='a request that is not allowed in the current state has no side effect')
        if e['kind'] == 'write' and e['field'] == 'state':
            if e['who'] is not None:
                made.setdefault(e['who'], (e['old'], e['new']))
            cur = e['new']
        if e['kind'] == 'event':
            running += 1
            li = e.get('li', 0)
            rec_li = told.setdefault(li, [])
            gaps = missed.setdefault(li, [])
            told_by.setdefault(e['who'], set()).add(li)
            if (e['old'], e['new']) not in SPEC_EDGES[d]:
                vs.append(Violation('C03-undocumented-edge',
                                    f"{d}: {lname(li)} was told {e['old']} -> {e['new']}, not an edge of the documented graph",
                                    case, observed=f"{e['old']}>{e['new']} (made by "
                                    + (f"call {e['who']}: {meth_of.get(e['who'])}" if e['who'] is not None else 'no request at all')
                                    + ')', required='an edge of Spec/TransferGraph.lean'))
            # a change this listener had missed and is told after all (the request went on although its caller is gone)
            if any(c == e['who'] and p == (e['old'], e['new']) for c, p in gaps):
                gaps.remove(next(g for g in gaps if g[0] == e['who'] and g[1] == (e['old'], e['new'])))
            before = rec_li[-1][1] if rec_li else registered.get(li, case['state'])
            if e['old'] != before and gaps:
                # the changes it missed (their announcement was cut short by the cancellation of the announcing caller)
                # lead from the last state it knew of to the one this pair starts in: they take their place in its record
                k, at = 0, before
                while k < len(gaps) and gaps[k][1][0] == at and at != e['old']:
                    at = gaps[k][1][1]
                    k += 1
                if at == e['old']:
                    rec_li += [[a, b, False] for _, (a, b) in gaps[:k]]
                    del gaps[:k]
                    before = at
            if e['old'] != before:
                flag('C03-listener-sequence-broken',
                     f"{d}: {lname(li)} was told {e['old']} -> {e['new']} although the last state it knew of was {before}"
                     + (f" (it had been told {rec_li[-1][0]} -> {rec_li[-1][1]})" if rec_li and rec_li[-1][2] else
                        ' (the state at registration)' if not rec_li else '')
                     + f": it observed an unannounced change {before} -> {e['old']}"
                     + ('' if (before, e['old']) in SPEC_EDGES[d] else ', which is not an edge of the documented graph either'),
                     observed=show(rec_li) + [f"{e['old']}>{e['new']}"],
                     required='each pair starts in the state the previous pair ended in')
            rec_li.append([e['old'], e['new'], True])
            for lj, other in told.items():
                k = min(len(rec_li), len(other))
                if lj != li and pairs(rec_li[:k]) != pairs(other[:k]):
                    flag('C03-listeners-told-differently',
                         f"{d}: {lname(li)} and {lname(lj)} were told different state changes of the same transfer",
                         observed={f'listener {li}': show(rec_li), f'listener {lj}': show(other)},
                         required='all listeners are told the same sequence of state changes')
        if e['kind'] == 'ret' and e['code'] == 'C' and e['who'] in made:
            # the caller was cancelled after it had assigned the state: the listeners it has not got to may never be
            # told this change (not demanded, see above)
            for li in range(n_listeners):
                if li not in told_by.get(e['who'], set()) and li in registered:
                    missed.setdefault(li, []).append((e['who'], made[e['who']]))
        if e['kind'] == 'obs' and in_flight == 0 and running == 0 and not e.get('gated'):
            recs = [pairs(told.get(li, [])) + [p for _, p in missed.get(li, [])] for li in range(n_listeners)]
            if any(r != recs[0] for r in recs):
                flag('C03-listeners-told-differently',
                     f"{d}: nothing is in flight any more, yet the listeners have not been told the same state changes",
                     observed={f'listener {li}': show(told.get(li, [])) + [f'{a}>{b} (not told: the announcing caller was '
                                                                           f'cancelled)' for _, (a, b) in missed.get(li, [])]
                               for li in range(n_listeners)},
                     required='all listeners are told the same sequence of state changes')
        if e['kind'] == 'ret' and e['code'] in ('F', 'R'):
            cid = e['who']
            mine = [x for x in log if x['who'] == cid and x is not e and
                    (x['kind'] in ('write', 'event', 'rm') or (x['kind'] == 'cancel' and x['live'] > 0))]
            if mine:
                x = mine[0]
                desc = {'write': lambda: f"wrote {x['field']}: {x['old']} -> {x['new']}",
                        'event': lambda: f"notified listeners {x['old']} -> {x['new']}",
                        'rm': lambda: 'removed the local file',
                        'cancel': lambda: f"cancelled {x['live']} task(s)"}[x['kind']]()
                vs.append(Violation('C03-refused-with-effect',
                                    f"{d}: call {cid} ({meth_of.get(cid)}) was refused but {desc}", case,
                                    observed=[{k: v for k, v in y.items() if k != 'fx'} for y in mine[:4]],
                                    required='a refused request has no side effect'))
            elif i > 0 and log[i - 1]['fx'] != e['fx']:
                vs.append(Violation('C03-refused-with-effect',
                                    f"{d}: the local file changed while call {cid} ({meth_of.get(cid)}) was refused", case))
        if e['kind'] == 'ret' and e['code'] == 'T':
            cid, m = e['who'], meth_of.get(e['who'])
            moved = any(x['who'] == cid and (x['kind'] == 'event' or (x['kind'] == 'write' and x['field'] == 'state'))
                        for x in log)
            if not moved and m in METHODS and (e['cur'], spec_target(d, m)) not in SPEC_EDGES[d]:
                if is_mgr.get(cid):
                    vs.append(Violation('C03-manager-refusal-not-raised',
                                        f"{d}: TransferManager.{m}(transfer) (call {cid}) is not allowed in state "
                                        f"{e['cur']} — the state the transfer was in when the request was served — and "
                                        f"changed nothing, yet it returned normally instead of raising "
                                        f"InvalidStateTransition: the caller is led to believe the transfer is now "
                                        f"{spec_target(d, m)}", case,
                                        observed=f"returned normally, transfer is {e['cur']}",
                                        required='InvalidStateTransition'))
                else:
                    vs.append(Violation('C03-not-refused',
                                        f"{d}: {m}() (call {cid}) is not allowed in state {e['cur']}, changed nothing, yet "
                                        f"reported success instead of False", case,
                                        observed='returned normally', required='refused'))
        if e['kind'] == 'ret' and e['code'][0] in ('E', '?'):
            vs.append(Violation('C03-impl-error', f"call {e['who']} ({meth_of.get(e['who'])}) ended with {e['code']}", case))
    return vs


# --------------------------------------------------------------------------------------------
# a record as an older release would have left it
# --------------------------------------------------------------------------------------------

class _Raw:
    """Stand-in for Transfer when a raw pickle is read (does not run __setstate__)."""

    def __setstate__(self, st):
        self.st = st


class _RawUnpickler(pickle.Unpickler):
    def find_class(self, module, name):
        if module == 'aioslsk.transfer.model' and name == 'Transfer':
            return _Raw
        return super().find_class(module, name)


class _LegacyWriter:
    """Pickles as `Transfer.__new__(Transfer)` + `__setstate__(state)` with an arbitrary state dict."""

    def __init__(self, state):
        self.state = state

    def __reduce__(self):
        from aioslsk.transfer.model import Transfer
        return (copyreg._reconstructor, (Transfer, object, None), self.state)


def _legacy_rewrite(cdir: str, spec: dict, ident=None):
    """Environment action: the stored record (the only one, or the one of identity `ident` = (username, remote_path,
    direction value)) is rewritten the way an older release would have left it: without `abort_reason` and with
    attributes that no longer exist (`a`), with an `_offset` (`o`), under the key format that preceded the length prefix
    (`k`). Works on the raw pickle."""
    import io
    with shelve.open(os.path.join(cdir, 'transfers'), flag='c') as sh:
        keys = list(sh.dict.keys())
        if ident is None:
            if len(keys) != 1:
                raise RuntimeError(f'legacy rewrite: {len(keys)} records in the cache')
            key = keys[0]
            st = dict(_RawUnpickler(io.BytesIO(sh.dict[key])).load().st)
        else:
            for key in keys:
                st = dict(_RawUnpickler(io.BytesIO(sh.dict[key])).load().st)
                if (st['username'], st['remote_path'], st['direction'].value) == tuple(ident):
                    break
            else:
                raise RuntimeError(f'legacy rewrite: no record {ident}')
        if spec.get('a'):
            st.pop('abort_reason', None)
            st['bytes_read'] = 0
            st['bytes_written'] = 0
        if spec.get('o'):
            st['_offset'] = 0
        data = pickle.dumps(_LegacyWriter(st))
        if spec.get('k'):
            del sh.dict[key]
            key = hashlib.sha256((st['username'] + st['remote_path'] + str(st['direction'].value)).encode('utf-8')
                                 ).hexdigest().encode()
        sh.dict[key] = data


# --------------------------------------------------------------------------------------------
# generators
# --------------------------------------------------------------------------------------------

def _init_for(state: str, d: str, rng: random.Random | None, rich: bool = True) -> dict:
    started = state in ('DOWNLOADING', 'UPLOADING', 'COMPLETE', 'INCOMPLETE', 'FAILED', 'ABORTED', 'PAUSED')
    ini = {'fr': None, 'ar': None, 'rq': 0, 'piq': None, 'qa': 0, 'ua': 0, 'st': 0 if started else None, 'ct': None,
           'file': 'file' if rich else 'none', 'fs': 1 if rich else 0, 'b': 10 if rich else 0,
           'tasks': 'both' if rich else 'none'}
    if state == 'FAILED':
        ini['fr'] = 2
    if state == 'ABORTED':
        ini['ar'] = 1
    if rng is not None:
        ini.update(rq=rng.randint(0, 1), piq=rng.choice([None, 0, 3]), qa=rng.choice([0, 2]), ua=rng.choice([0, 1]),
                   st=rng.choice([None, 0]), file=rng.choice(['none', 'path', 'file', 'file']),
                   fs=rng.randint(0, 1), b=rng.choice([0, 10, 1000]),
                   tasks=rng.choice(['none', 'transfer', 'queue', 'both', 'both']),
                   fr=rng.choice([None, None, 2, 3]), ar=rng.choice([None, None, 1, 0]))
        ini['ct'] = rng.choice([None, 0]) if ini['st'] is not None else None
    return ini


def _call(cid, m, rng=None):
    reason = None
    remotely = 0
    if m == 'abort':
        reason = 1 if rng is None else rng.choice([1, 0, 3, None])
    elif m == 'fail':
        reason = None if rng is None else rng.choice([None, 2, 3, 4])
    elif m == 'queue':
        remotely = 0 if rng is None else rng.choice([0, 0, 1])
    return ['call', cid, m, reason, remotely]


def _pair_cases() -> list[dict]:
    """EXHAUSTIVE: every (direction, state, op1, op2), op2 issued while op1 is inside its slow step (if it has one)."""
    out = []
    for d in ('download', 'upload'):
        for s in STATES:
            for m1 in METHODS:
                for m2 in METHODS:
                    out.append({'kind': 'pair', 'dir': d, 'state': s, 'slow_cancel': 1, 'slow_fs': 1,
                                'ls': [[1, 1], [0, 0]], 'k': 2, 'init': _init_for(s, d, None),
                                'steps': [[_call(0, m1)], [_call(1, m2)]] + [[['resume']]] * 6})
    return out


def _pair_mgr_cases() -> list[dict]:
    """EXHAUSTIVE: every (direction, state, op1, op2) where op2 is a request at the manager API
    (`TransferManager.abort/queue/pause`) issued while op1 — any state method, or one of the three manager requests — is
    inside its slow step: the refusal must surface as InvalidStateTransition whatever happened while op2 waited."""
    out = []
    firsts = [_call(0, m) for m in METHODS] + [['mcall', 0, m] for m in ('abort', 'queue', 'pause')]
    for d in ('download', 'upload'):
        for s in STATES:
            for a in firsts:
                for m2 in ('abort', 'queue', 'pause'):
                    out.append({'kind': 'pair-mgr', 'dir': d, 'state': s, 'slow_cancel': 1, 'slow_fs': 1,
                                'ls': [[0, 1], [1, 0]], 'k': 1, 'init': _init_for(s, d, None),
                                'steps': [[list(a)], [['mcall', 1, m2]]] + [[['resume']]] * 6})
    return out


def _allowed(d: str, s: str, m: str) -> bool:
    return (s, spec_target(d, m)) in SPEC_EDGES[d]


def _pair_cancel_cases(tier: str) -> list[dict]:
    """EXHAUSTIVE over (direction, state, op1 allowed in that state, op2) x the suspension point of op1 (j = 0, 1, 2 slow
    steps of op1 already finished: task cancellation -> file-system call -> listeners) x WHO is cancelled — the caller of
    op1 (the lock holder, suspended) or the caller of op2 (waiting for the lock) — x tasks that end / do not end sooner
    when cancelled again; then a third request, and everything is let go. (op1 not allowed: it is refused at once, there
    is nothing to cancel — one variant is kept to see exactly that.)"""
    out = []
    n = 0
    for d in ('download', 'upload'):
        for s in STATES:
            for i1, m1 in enumerate(METHODS):
                for i2, m2 in enumerate(METHODS):
                    variants = [(j, w) for j in (0, 1, 2) for w in (0, 1)] if _allowed(d, s, m1) else [(0, 0)]
                    for j, w in variants:
                        n += 1
                        stubs = (0, 1) if tier == 'thorough' else (n % 2,)
                        for stubborn in stubs:
                            m3 = METHODS[(i1 + 3 * i2 + j + w) % len(METHODS)]
                            third = ['mcall', 2, m3] if m3 in ('abort', 'queue', 'pause') and (n % 3 == 0) else _call(2, m3)
                            out.append({'kind': 'pair-cancel', 'dir': d, 'state': s, 'slow_cancel': 1, 'slow_fs': 1,
                                        'stubborn': stubborn, 'ls': [[0, 0], [1, 1], [0, 0]], 'k': 1,
                                        'init': _init_for(s, d, None),
                                        'steps': [[_call(0, m1)], [_call(1, m2)]] + [[['resume']]] * j
                                        + [[['cancel', w]], [third]] + [[['resume']]] * 6})
    return out


def _fault_cases(tier: str) -> list[dict]:
    """EXHAUSTIVE over (direction, state, request = every state method and every manager request) x WHEN the file system
    starts refusing removals — before the request is made (nothing is slow: the request runs through in one go), or
    while the request is suspended in front of the file-system call (its tasks are cancelled and have ended by then) —
    x is the file there or only its path; the fault (one of four OSErrors, in turn) then ends and a second request is
    made (the same one again through the other entrance, or `queue`), so that what a refusal left behind is seen.
    Thorough: also with a second request arriving while the first one is suspended."""
    out = []
    n = 0
    firsts = [_call(0, m) for m in METHODS] + [['mcall', 0, m] for m in ('abort', 'queue', 'pause')]
    for d in ('download', 'upload'):
        for s in STATES:
            for a in firsts:
                for file in ('file', 'path'):
                    for slow in (0, 1, 2) if tier == 'thorough' else (0, 1):
                        n += 1
                        fault = ['fsfault', 1 + (n + n // 4) % len(FS_FAULTS)]
                        m = a[2]
                        again = (['mcall', 1, m] if a[0] == 'call' else _call(1, m)) if m in ('abort', 'queue', 'pause') \
                            and n % 2 else _call(1, 'queue')
                        ini = _init_for(s, d, None)
                        ini['file'] = file
                        if slow == 0:
                            steps = [[fault, list(a)], [['fsfault', 0]], [again], [['resume']]]
                        elif slow == 1:
                            steps = [[list(a)], [['resume']], [fault], [['resume']], [['resume']], [['resume']],
                                     [['fsfault', 0], again]] + [[['resume']]] * 4
                        else:
                            steps = [[fault, list(a)], [again]] + [[['resume']]] * 8
                        out.append({'kind': 'fault', 'dir': d, 'state': s, 'slow_cancel': int(slow > 0),
                                    'slow_fs': int(slow > 0), 'ls': [[0, 0], [int(slow > 0), n % 2]], 'k': n % 3,
                                    'init': ini, 'steps': steps})
    # the requests that do remove the file (a download, a state that has the edge to ABORTED), in depth: which tasks
    # are live, which entrance, what is asked next — and the caller giving up while the refusing file system is asked
    for s in STATES:
        if not _allowed('download', s, 'abort'):
            continue
        for tasks in ('none', 'transfer', 'queue', 'both'):
            for mgr in (0, 1):
                for i3, m3 in enumerate(('abort', 'queue', 'pause', 'fail', 'incomplete')):
                    for slow in (0, 1, 2):
                        n += 1
                        fault = ['fsfault', 1 + (n + n // 3) % len(FS_FAULTS)]
                        first = ['mcall', 0, 'abort'] if mgr else _call(0, 'abort')
                        nxt = ['mcall', 1, m3] if m3 in ('abort', 'queue', 'pause') and (n + mgr) % 2 else _call(1, m3)
                        ini = _init_for(s, 'download', None)
                        ini.update(tasks=tasks, st=(None, 0)[n % 5 != 0])
                        if slow == 0:
                            steps = [[fault, first], [['fsfault', 0], nxt], [['resume']]]
                        elif slow == 1:
                            steps = [[first], [['resume']], [fault], [['resume']], [['resume']], [['fsfault', 0], nxt]] \
                                + [[['resume']]] * 3
                        else:       # the caller gives up while the request is suspended in the file-system call
                            steps = [[fault, first], [['resume']], [['cancel', 0]], [nxt]] + [[['resume']]] * 3 \
                                + [[['fsfault', 0], ['mcall', 2, 'abort']]] + [[['resume']]] * 3
                        out.append({'kind': 'fault', 'dir': 'download', 'state': s, 'slow_cancel': int(slow > 0),
                                    'slow_fs': int(slow > 0), 'stubborn': n % 2, 'ls': [[0, 0], [int(slow == 1), n % 2]],
                                    'k': n % 3, 'init': ini, 'steps': steps})
    return out


def _with_faults(case: dict, frng: random.Random) -> dict:
    """A history in which the file system starts / stops refusing removals at random moments (steps of their own)."""
    steps = []
    on = 0
    for st in case['steps']:
        if frng.random() < (0.5 if on else 0.25):
            on = 0 if on else frng.choice(sorted(FS_FAULTS))
            steps.append([['fsfault', on]])
        steps.append(st)
    return dict(case, steps=steps)


LEGACIES = [None, {'a': 1}, {'o': 1}, {'a': 1, 'o': 1, 'k': 1}]


def _load_cases(rng) -> list[dict]:
    """EXHAUSTIVE over (direction, stored state, all bytes there or not, record written by this release / by an older one)
    x the first request made of the loaded transfer (every state method, every manager request): the record is written
    by the real write_cache, read back by the real read_cache of a new manager, listeners attached at TransferAddedEvent."""
    out = []
    n = 0
    firsts = [_call(0, m) for m in METHODS] + [['mcall', 0, m] for m in ('abort', 'queue', 'pause')]
    for d in ('download', 'upload'):
        for s in STATES:
            for whole in (0, 1):
                for a in firsts:
                    n += 1
                    ini = _init_for(s, d, None)
                    ini.update(fs=1, b=1000 if whole else 10, rq=n % 2, tasks=('both', 'none')[n % 2])
                    legacy = LEGACIES[n % len(LEGACIES)]
                    if legacy and legacy.get('a'):
                        ini['ar'] = None
                    out.append({'kind': 'load', 'dir': d, 'state': s, 'slow_cancel': 1, 'slow_fs': n % 2, 'stubborn': 0,
                                'ls': [[n % 2, 0], [0, [1, 0][n % 2]]], 'k': 1, 'init': ini, 'load': {'legacy': legacy},
                                'steps': [[], [list(a)]] + [[['resume']]] * 4 + ([[['reload']], [_call(1, 'queue')]] if n % 4 == 0 else [])
                                + [[['resume']]] * 2})
    return out


def _listener_mix(rng, gated_ok: bool) -> list:
    """1–3 application listeners; some suspend for 0..3 loop iterations (the same number every time, or slow one time
    and quick the next), some (when the schedule has `resume` steps to let them go) on the gate."""
    return [[int(gated_ok and rng.random() < 0.4), rng.choice([0, 0, 1, 2, 3, [3, 0], [0, 2], [2, 0, 1]])]
            for _ in range(rng.choice([1, 2, 2, 3]))]


def _pair_burst_cases(rng) -> list[dict]:
    """every (direction, state, op1, op2) again, both issued in the same loop iteration, nothing gated: the calls
    overlap for as long as cancellation takes (k iterations) — exercised on the implementation, the model is atomic"""
    out = []
    for d in ('download', 'upload'):
        for s in STATES:
            for m1 in METHODS:
                for m2 in METHODS:
                    out.append({'kind': 'pair-burst', 'dir': d, 'state': s, 'slow_cancel': 0, 'slow_fs': 0,
                                'ls': _listener_mix(rng, False), 'k': rng.choice([0, 1, 3]),
                                'init': _init_for(s, d, None), 'steps': [[_call(0, m1), _call(1, m2)], []]})
    return out


def _triple_cases(rng, n: int | None) -> list[dict]:
    """(direction, state, op1, op2, op3): op2 and op3 arrive one after the other while op1 holds the lock."""
    space = [(d, s, a, b, c) for d in ('download', 'upload') for s in STATES for a in METHODS for b in METHODS
             for c in METHODS]
    if n is not None and n < len(space):
        space = rng.sample(space, n)
    out = []
    for d, s, a, b, c in space:
        gated = rng.random() < 0.8
        ls = _listener_mix(rng, gated)
        if gated and not any(g for g, _ in ls):
            ls[0][0] = 1
        out.append({'kind': 'triple', 'dir': d, 'state': s, 'slow_cancel': int(gated), 'slow_fs': int(gated and rng.random() < 0.5),
                    'ls': ls, 'k': rng.choice([0, 1, 4]), 'init': _init_for(s, d, None),
                    'steps': ([[_call(0, a)], [_call(1, b)], [_call(2, c)]] if gated else [[_call(0, a), _call(1, b), _call(2, c)]])
                    + [[['resume']]] * (3 * (2 + sum(g for g, _ in ls)) if gated else 1)})
    return out


def _random_case(rng: random.Random, size: int) -> dict:
    d = rng.choice(['download', 'upload'])
    s = rng.choice(STATES)
    case = {'kind': 'history', 'dir': d, 'state': s, 'slow_cancel': rng.randint(0, 1), 'slow_fs': rng.randint(0, 1),
            'ls': _listener_mix(rng, True), 'k': rng.choice([0, 0, 1, 3]), 'init': _init_for(s, d, rng), 'steps': []}
    if rng.random() < 0.5:
        case['stubborn'] = rng.randint(0, 1)
    if rng.random() < 0.25:
        case['load'] = {'legacy': rng.choice(LEGACIES)}
        if case['load']['legacy'] and case['load']['legacy'].get('a'):
            case['init']['ar'] = None
        case['steps'].append([])        # what the listeners were told while the cache was read
    cancels = rng.random() < 0.5        # half of the histories have callers that give up
    cid = 0
    issued = []                         # ids issued in EARLIER steps (a caller can only be cancelled once it runs)
    pending_created = []
    weights = {'queue': 5, 'abort': 4, 'pause': 4, 'initialize': 3, 'start_transferring': 3, 'fail': 3, 'complete': 2,
               'incomplete': 2}
    meths = [m for m, w in weights.items() for _ in range(w)]
    for _ in range(rng.randint(2, size)):
        step = []
        if cancels and issued and rng.random() < 0.3:
            # the newest requests are the ones most likely still in flight
            step.append(['cancel', rng.choice(issued[-3:])])
        elif rng.random() < 0.04:
            step.append(['reload'])
        for _ in range(rng.choice([1, 1, 1, 2, 3])):
            r = rng.random()
            if r < 0.40:
                step.append(_call(cid, rng.choice(meths), rng))
                cid += 1
            elif r < 0.45:
                step.append(['pcall', cid, rng.choice([2, 3, 4, 5])] if d == 'download' else _call(cid, 'fail', rng))
                cid += 1
            elif r < 0.55:
                step.append(['mcall', cid, rng.choice(['abort', 'queue', 'pause'])])
                cid += 1
            elif r < 0.65:
                c = _call(cid, rng.choice(meths), rng)
                c[0] = 'create'
                step.append(c)
                pending_created.append(cid)
                cid += 1
            elif r < 0.75 and pending_created:
                step.append(['start', pending_created.pop(rng.randrange(len(pending_created)))])
            elif r < 0.90:
                step.append(['resume'])
                break               # a resume is the only action of its step's tail: blockers are well defined
            elif r < 0.95:
                step.append(['spawn', rng.choice(['transfer', 'queue', 'both'])])
            else:
                step.append(['setfile'])
        # `resume` acts on what is blocked at the START of the step, and what the environment does (spawn, setfile)
        # happens at once while calls only run when the loop turns: keep that order in the step
        step.sort(key=lambda a: {'resume': 0, 'cancel': 0, 'spawn': 1, 'setfile': 1, 'reload': 1, 'fsfault': 1}.get(a[0], 2))
        if step and step[0][0] in ('resume', 'cancel'):     # the resumed / cancelled holder has not run yet when the next action is applied
            step = [a for a in step if a[0] not in ('spawn', 'setfile', 'reload', 'fsfault')]
            if step[0][0] == 'cancel':
                step = [a for a in step if a[0] != 'resume']
        case['steps'].append(step)
        issued += [a[1] for a in step if a[0] in ('call', 'mcall', 'pcall', 'start')]
    for cid_ in pending_created:
        if rng.random() < 0.7:
            case['steps'].append([['start', cid_]])
    case['steps'] += [[['resume']]] * rng.choice([0, 2, 6])
    return case


def _malformed_cases() -> list[dict]:
    base = {'kind': 'malformed', 'dir': 'download', 'state': 'QUEUED', 'slow_cancel': 0, 'slow_fs': 0, 'ls': [[0, 0]],
            'k': 0, 'init': _init_for('QUEUED', 'download', None)}
    return [
        dict(base, steps=[[['start', 7]], [_call(0, 'abort')]]),
        dict(base, steps=[[['call', 0, 'resume_transfer', None, 0]], [_call(1, 'pause')]]),
        dict(base, steps=[[['mcall', 0, 'fail']], [['mcall', 1, 'complete']], [['mcall', 2, 'abort']]]),
        dict(base, steps=[[_call(0, 'pause'), _call(0, 'queue')], [['create', 1, 'queue', None, 1]], [['start', 1], ['start', 1]]]),
    ]


# the design-time finding (fixed by fixes/C03-dispatch-on-current-state.patch): kept as a corpus case
WITNESS = {'kind': 'witness', 'dir': 'download', 'state': 'DOWNLOADING', 'slow_cancel': 1, 'slow_fs': 0, 'slow_listener': 0,
           'k': 0, 'ly': 0, 'init': _init_for('DOWNLOADING', 'download', None),
           'steps': [[_call(0, 'abort')], [_call(1, 'pause')], [['resume']], [['resume']]]}


def _model_lines(case: dict, mode: str) -> list[str]:
    ini = case['init']
    o = lambda v: '-' if v is None else str(v)
    tl = int(ini.get('tasks', 'none') != 'none')
    ls = '0' + ''.join(str(g) for g, _ in _listeners(case))       # the manager's own listener never suspends
    loaded = case.get('load') is not None
    ar = ini.get('ar')
    if loaded and (case['load'].get('legacy') or {}).get('a'):
        ar = None                       # the record has no abort_reason at all
    out = [f"cfg {case['dir']} {int(case['slow_cancel'])} {int(case['slow_fs'])} {ls} {mode} {int(bool(case.get('stubborn')))}",
           f"init {case['state']} {o(ini.get('fr'))} {o(ar)} {int(bool(ini.get('rq')))} {o(ini.get('piq'))} "
           f"{ini.get('qa', 0)} {ini.get('ua', 0)} {o(ini.get('st'))} {o(ini.get('ct'))} "
           f"{int(ini.get('file') in ('path', 'file'))} {int(ini.get('file') == 'file')} {int(bool(ini.get('fs')))} "
           f"{ini.get('b', 0)} {0 if loaded else tl}"]
    if loaded:
        whole = (1000 if ini.get('fs') else None) == ini.get('b', 0)        # Transfer.is_transfered()
        out.append(f'load {int(whole)}')
        if tl:
            out.append('spawn')
    for step in case['steps']:
        for a in step:
            if a[0] in ('call', 'create'):
                out.append(f"{a[0]} {a[1]} {a[2]} {o(a[3])} {int(bool(a[4]))}")
            elif a[0] == 'mcall':
                out.append(f"mcall {a[1]} {a[2]}")
            elif a[0] == 'pcall':
                out.append(f"pcall {a[1]} {o(a[2])}")
            elif a[0] in ('start', 'cancel'):
                out.append(f"{a[0]} {a[1]}")
            elif a[0] == 'spawn':
                out.append('spawn')
            elif a[0] == 'fsfault':
                out.append(f"fsfault {int(bool(a[1])) if len(a) == 2 and a[1] in (0, *FS_FAULTS) else '?'}")
            else:
                out.append(a[0])
        out.append('obs')
    return out


def _check_spec(line: str):
    """The monitor's copy of the documented graph must be the frozen Lean spec."""
    toks = line.split()
    edges = {'upload': set(), 'download': set()}
    targets = {}
    for t in toks:
        d, rest = t.split(':', 1)
        if '>' in rest:
            a, b = rest.split('>')
            edges[d].add((a, b))
        else:
            m, tgt = rest.split('=')
            targets[(d, m.split('.')[-1])] = tgt
    if edges != SPEC_EDGES:
        raise common.LeanError('props/c03.py SPEC_EDGES differs from Spec/TransferGraph.lean')
    for d in ('upload', 'download'):
        for m in METHODS:
            if targets[(d, 'start' if m == 'start_transferring' else m)] != spec_target(d, m):
                raise common.LeanError('props/c03.py spec_target differs from Spec/TransferGraph.lean')


def _corpus_cases() -> list[dict]:
    import json
    out = []
    p = common.CORPUS / 'C03'
    if p.is_dir():
        for f in sorted(p.glob('*.json')):
            try:
                c = json.loads(f.read_text())
                out.append(c.get('case', c))
            except ValueError:
                pass
    return out


class C03(Property):
    id = 'C03'
    props_module = 'AioslskVerif.Props.C03'
    driver_module = 'AioslskVerif.Driver.C03'
    rule = ('schedules over one real Transfer held by a real TransferManager, with 2-4 state listeners (the manager\'s own '
            'first, then 1-3 application listeners that suspend on a gate the schedule opens and/or for 0-3 loop '
            'iterations), every listener\'s record observed: EXHAUSTIVE over (direction, state, op1, op2) with op2 issued '
            'while op1 is suspended in its slow step(s) (gated task cancellation, file-system call, listener), EXHAUSTIVE '
            'over (direction, state, op1 = any state method or manager request, op2 = TransferManager.abort/queue/pause) '
            'likewise, the 1280 pairs again issued in one loop iteration with k-iteration cancellation; EXHAUSTIVE over '
            '(direction, state, op1 allowed there, op2) x the suspension point of op1 (0/1/2 slow steps done) x whose caller '
            'is cancelled (op1\'s = the suspended lock holder, op2\'s = waiting for the lock) x tasks that end / do not end '
            'sooner when cancelled again (quick: alternating, thorough: both), followed by a third request; EXHAUSTIVE over '
            '(direction, stored state, whole/partial, first request) for transfers written to a real shelve cache by the '
            'real write_cache (a quarter each: as is / without abort_reason / with _offset / all of these under the old key) '
            'and read back by the real read_cache of a new manager with listeners attached at TransferAddedEvent; caches '
            'holding 2-10 transfers of mixed direction/state (monitor only); sampled (quick) / all (thorough) triples; random '
            'histories of up to 8 steps with up to 3 actions each (call / create+start / manager call / peer message through '
            'the real handler / resume / spawn / setfile / cancel the caller of an earlier request / reload), a quarter of '
            'them on a transfer read from the cache, all from VERIF_SEED; a case is non-trivial when some call arrived while '
            'another held the lock (a waiter was observed or two calls were issued in one step), or a caller was cancelled, '
            'or the transfer was read from the cache, or the file system refused a removal — and at least one listener event '
            'happened; distinct = distinct canonical case. File-system faults (`fsfault`: aiofiles.os.remove raises '
            'EACCES / EISDIR / EROFS / EBUSY until the fault ends): EXHAUSTIVE over (direction, state, request = every state '
            'method and manager request) x fault present before the request / starting while the request is suspended in '
            'front of the file-system call x file there / only its path, followed by the end of the fault and a second '
            'request (thorough: also a second request arriving while the first is suspended); a fifth of the random '
            'histories with faults starting and ending at random steps; a quarter of them with executor calls '
            '(aiofiles) that suspend their caller for one loop iteration, as with a thread pool (default: atomic)')
    assumptions = [
        'asyncio is cooperative and asyncio.Lock hands over FIFO (CPython 3.12); exercised, not modelled',
        'between two schedule steps the loop is run until nothing more can happen; overlap inside such a step '
        '(un-gated k-iteration cancellation, listener yields) is exercised on the implementation and atomic in the model',
        'a caller is cancelled with task.cancel() at a point where the loop has settled — which is also what the time-out '
        'of an asyncio.wait_for around the request does (3.12: wait_for runs the coroutine in the caller\'s task under '
        'asyncio.timeout); cancelling a gather cancels its children again and the gather ends when they have ended '
        '(CPython semantics, exercised)',
        'outside transfer/state.py the state of a transfer is written in exactly the places C03_outside_sites_pinned lists '
        '(re-read from the source on every run): Transfer.__init__, Transfer.transition, and the repair assignment of '
        'read_cache, which happens before TransferManager.add registers the first listener (modelled as `load`; what it '
        'maps to what is C17\'s subject)',
        'the model and the theorems are of the wrapper as repaired by fixes/C03-dispatch-on-current-state.patch',
    ]
    modelled = ('transfer/state.py: per-state methods (table regenerated by AST on every run: 31 overrides, effect lists, '
                'targets per direction), _with_state_lock dispatch + lock hand-over, _remove_local_file, '
                '_cancel_transfer_tasks/_stop_transfer; transfer/model.py: transition (state assignment, then the loop over '
                'state_listeners in registration order, the new state read again for every listener, any listener may '
                'suspend), set_/reset_ helpers, cancel_tasks, __setstate__ (fresh lock, no tasks, no listeners, default '
                'abort reason); TransferManager.add (the manager is listener 0), TransferManager.abort/queue/pause (refusal '
                'raises), TransferManager.read_cache / write_cache (repair before add; a record of a transfer already held '
                'is dropped), _on_peer_transfer_queue_failed; cancellation of the caller of a request at every point where '
                'a request can be suspended (lock wait, gather over the cancelled tasks, file-system call, listener); a '
                'removal the file system refuses with OSError (XOp.fsFault: caught, path forgotten, file stays, the request '
                'goes on — it is not a refusal). Not modelled: real peers (the cancelled tasks are stand-ins), the rest of the '
                'manager, listeners added or removed while the transfer is in use, caches holding several transfers '
                '(monitor only)')

    def regenerate(self):
        return [transfer_table.generate(common.REPO, common.LEAN)]

    def _cases(self, seed, tier, widen):
        rng = random.Random(f'C03-{seed}')
        cases = [WITNESS] + _corpus_cases() + _malformed_cases()
        cases += _pair_cases()
        cases += _pair_mgr_cases()
        cases += _pair_burst_cases(rng)
        cases += _pair_cancel_cases(tier)
        cases += _load_cases(rng)
        cases += _fault_cases(tier)
        cases += _loadmany_cases(rng, (60 if tier == 'quick' else 400) * widen)
        cases += _triple_cases(rng, None if tier == 'thorough' else 1500 * widen)
        n = (2500 if tier == 'quick' else 12000) * widen
        hist = [_random_case(rng, rng.choice([3, 5, 8])) for _ in range(n)]
        # a fifth of the histories with file-system faults; their own generator, so that the histories themselves are
        # the ones earlier versions of this check drew from the same seed
        frng = random.Random(f'C03-faults-{seed}')
        cases += [_with_faults(c, frng) if i % 5 == 0 else c for i, c in enumerate(hist)]
        # a quarter of the histories with executor calls (aiofiles) that suspend their caller for a loop iteration, as
        # with a real thread pool (`SimLoop.executor_suspends`): other tasks run inside every file operation
        n0 = len(cases) - len(hist)
        cases = cases[:n0] + [dict(c, exsusp=True) if i % 4 == 1 else c for i, c in enumerate(cases[n0:])]
        return cases

    def correspondence(self, seed, tier, model_ok, widen=1):
        res = KResult()
        mode = os.environ.get('C03_MODE', 'current')
        cases = self._cases(seed, tier, widen)
        impl = common.parallel_map(_eval_case, cases, chunksize=32)
        model = None
        if model_ok:
            lines, spans = ['spec'], []
            for c in cases:
                ls = [] if c['kind'] == 'loadmany' else _model_lines(c, mode)       # loadmany: monitor only
                spans.append((len(lines), len(ls)))
                lines += ls
            out = common.run_driver(self.driver_file, lines)
            _check_spec(out[0])
            model = []
            for c, (a, k) in zip(cases, spans):
                if c['kind'] == 'loadmany':
                    model.append(None)
                    continue
                pre = 2 + (0 if c.get('load') is None else 1 + int(c['init'].get('tasks', 'none') != 'none'))
                if out[a:a + pre] != ['ok'] * pre:
                    raise common.LeanError(f'driver rejected cfg/init/load: {out[a:a + pre]}')
                model.append(out[a + pre:a + k])      # drop the answers to cfg/init(/load/spawn)
        else:
            res.model_available = False
        for i, c in enumerate(cases):
            res.evaluations += 1
            res.count('kind:' + c['kind'])
            io = impl[i]
            if c['kind'] == 'loadmany':
                res.count('loadmany-records', len(c['records']))
                told = (io.get('many') or {}).get('told', {})
                if any(told.values()):
                    res.count('loadmany-cases-with-events')
                    res.nontrivial_keys.add(common.sha({k: v for k, v in c.items() if k != 'kind'}))
                res.violations += _monitor(c, io)
                if io.get('loop_exceptions'):
                    res.violations.append(Violation('C03-impl-error', 'exception reached the event loop: '
                                                    + str(io['loop_exceptions'][0]), c))
                continue
            res.count('dir:' + c['dir'])
            res.count(f'listeners:{1 + len(_listeners(c))}')
            if any(g for g, _ in _listeners(c)):
                res.count('cases-with-gated-listener')
            if c.get('load') is not None:
                res.count('cases-read-from-cache')
                res.count('legacy:' + ('none' if not c['load'].get('legacy') else '+'.join(sorted(c['load']['legacy']))))
            if c.get('stubborn'):
                res.count('cases-with-stubborn-tasks')
            n_cancel = sum(1 for e in io['log'] if e['kind'] == 'cancel-caller')
            if n_cancel:
                res.count('cases-with-cancelled-caller')
                res.count('callers-cancelled', n_cancel)
                res.count('cancelled-after-state-assigned',
                          sum(1 for e in io['log'] if e['kind'] == 'ret' and e['code'] == 'C' and any(
                              x['kind'] == 'write' and x['field'] == 'state' and x['who'] == e['who'] for x in io['log'])))
            for j, e in enumerate(io['log']):
                if e['kind'] == 'cancel-caller':
                    mine = [x for x in io['log'][:j] if x['who'] == e['who'] and x['kind'] != 'sched']
                    open_ev = sum(1 for x in mine if x['kind'] == 'event') - sum(1 for x in mine if x['kind'] == 'event-end')
                    where = ('waiting-for-lock' if not mine else 'in-listener' if open_ev > 0 else
                             'in-file-system-call' if mine[-1]['kind'] == 'fs-wait' else
                             'in-task-cancellation' if mine[-1]['kind'] == 'cancel' and mine[-1]['live'] > 0 else 'other')
                    res.count('cancelled:' + where)
            n_rmfail = sum(1 for e in io['log'] if e['kind'] == 'rm-fail')
            if any(a[0] == 'fsfault' and a[1] for st in c['steps'] for a in st):
                res.count('cases-with-file-system-fault')
            if n_rmfail:
                res.count('cases-with-refused-removal')
                res.count('removals-refused-by-the-file-system', n_rmfail)
                for e in io['log']:
                    if e['kind'] == 'rm-fail':
                        res.count(f"refused-removal:{errno.errorcode.get(e['errno'], e['errno'])}")
                if any(e['kind'] == 'fs-wait' for e in io['log']):
                    res.count('removal-refused-after-suspension-in-file-system-call')
            res.count('reloads', sum(1 for st in c['steps'] for a in st if a[0] == 'reload'))
            res.count('peer-messages', sum(1 for st in c['steps'] for a in st if a[0] == 'pcall'))
            il = io['lines']
            obs = [l for l in il if ' lock=' in l]
            n_ev = sum(1 for e in io['log'] if e['kind'] == 'event')
            n_ref = sum(1 for e in io['log'] if e['kind'] == 'ret' and e['code'] in ('F', 'R'))
            overlapped = any(' w=0 ' not in l for l in obs) or \
                any(sum(1 for a in st if a[0] in ('call', 'start', 'mcall', 'pcall')) > 1 for st in c['steps'])
            res.count('events', n_ev)
            res.count('refusals', n_ref)
            res.count('calls', sum(1 for st in c['steps'] for a in st if a[0] in ('call', 'create', 'mcall', 'pcall')))
            if overlapped:
                res.count('cases-with-overlap')
            if any('lock=1' in l for l in obs):
                res.count('cases-with-suspended-holder')
            if (overlapped or n_cancel or n_rmfail or c.get('load') is not None) and n_ev > 0:
                res.nontrivial_keys.add(common.sha({k: v for k, v in c.items() if k != 'kind'}))
            if model is not None:
                res.traces_validated += 1
                if model[i] != il:
                    k = next((j for j, (a, b) in enumerate(zip(model[i], il)) if a != b), min(len(model[i]), len(il)))
                    res.disagreements.append(Disagreement(
                        c, il[k] if k < len(il) else None, model[i][k] if k < len(model[i]) else None,
                        f'output line #{k}'))
            res.violations += _monitor(c, io)
            if io.get('loop_exceptions'):
                res.violations.append(Violation('C03-impl-error', 'exception reached the event loop: '
                                                + str(io['loop_exceptions'][0]), c))
            if len(res.samples) < 3 and c['kind'] in ('pair', 'history') and n_ev > 0 and overlapped \
                    and (c['kind'] == 'history' or (i % 97 == 5)):
                res.samples.append({'case': c, 'impl': il})
        return res

    def replay(self, case):
        return _monitor(case, _eval_case(case))

    def known_witnesses(self):
        return []


PROPERTY = C03()
