"""C16 — session life cycle: login advertises settings, loss resets, stop is final.

Correspondence K_C16 + monitor (DESIGN.md, C16).

The unmodified `SoulSeekClient` runs on `vlib.simloop.SimLoop` (virtual time) and `vlib.fakenet.FakeNet`
(in-memory sockets) against a scripted server built on the repo's own message classes.  A case is a
configuration (settings grid + scenario switches) and a script of operations; after every operation the
harness lets the loop quiesce and records what happened during the operation (connect attempts, CONNECTED /
CLOSED(reason) events of the server connection, Login requests and burst frames that reached the server,
SessionInitialized / SessionDestroyed events, results of login()/execute()/start()) and the state afterwards
(connection state, session, pending library tasks mapped to their spawn site, tracked users, whether users /
rooms / server-sent distributed parameters are stored, open sockets).  The Lean driver executes the same
script with `Session.step`; the canonical lines must be equal.

case = {'cfg': {...}, 'ops': [[op, arg?]...], 'kind': str, 'model': bool (default True)}
  ops: start | login | logincut j | exec | populate | search | wl | pp | sr | loss <reason> | tick n | srvup b
       | srvreply accepted|rejected|garbled|eof | stop          (tick = 0.5 s of virtual time)
       | loginat pre|j ev      login() as its own task, suspended before the reply / in the drain of burst write j
                               (every drain from then on waits for a gate); then ev in stop | requested | timeout |
                               unknown | eof | reset happens (stop() / disconnect_server() / disconnect(reason) in
                               another task; the server closes / resets its end), then the gate opens
       | loginrace k ev        the same without any gate: ev is issued k loop iterations after login() started
                               (natural asyncio schedule; monitor only, `model: False`)
       | lossheld <reason> closed|destr   a loss during which a listener of the APPLICATION for the CLOSED /
                               SessionDestroyed event stays suspended (DataConnection.disconnect does not return)
       | release               the suspended listeners return
       | connect               the application calls network.connect_server() (valid while the watchdog is not in
                               its reconnect delay)
       | lossrec <reason>      a loss whose CLOSED listener (application) reconnects and logs in again inside the event
       | loginslow             login() as its own task whose SessionInitialized listener of the APPLICATION stays
                               suspended (the library's burst is complete, the reader not started) until `release`
                               (monitor only)
       | peerin n              n remote peers connect to the clear listening port and introduce themselves (PeerInit,
                               type P): n established idle peer connections, each with its reader   (monitor only)
       | breakwrites 0|1       from now on writes of the client to the server fail (1: the transport is already gone,
                               wait_closed() does not suspend); the loss is noticed by whichever task of the LIBRARY
                               writes next: the keep-alive (`tick 601`) or the wishlist job (`wl`)   (monitor only)
       | parent name L R       (round 5) the server names a potential parent `name` that ACCEPTS the connection; when
                               the connection stands the peer announces branch level L and, unless L = 0, branch root
                               R: it becomes the distributed parent (needs the server reader, `debug.search_for_parent`
                               and no parent yet).  The parent is a PEER connection: it survives a loss of the server
                               connection, every later login has to announce the position the client has then
       | plevel L | proot R    the parent announces a new level / root   | ploss   the parent's connection closes
       | child | closs         a peer connects to the clear listening port (PeerInit, type D) and becomes a child (at
                               most 5) / the oldest child's connection closes
       | rescan n              the application brings the first shared directory to n extra files and calls
                               shares.scan(): the index changes between logins
Live distributed peers keep talking (a DistributedPing every 20 s of virtual time, ignored by the library) so that
the 60 s read timeout of peer connections does not end them.
An operation that is not applicable in the current state (e.g. `populate` without a reader) is skipped on
both sides (`inv=1`); applicability is the same predicate on both sides.

Time: operation i is followed/executed with a tiny offset 2^-(12+i) so that no two of {operation instants,
library timers} ever coincide; the model's convention (operations just after a tick boundary, timers just
before) then holds exactly.
"""
from __future__ import annotations

import asyncio
import logging
import os
import random
import shutil
import struct
import tempfile
from typing import Any, Optional

from vlib import common, simloop, fakenet
from vlib.common import KResult, Violation, Disagreement, Property

SERVER_PORT = 2416
PP_ADDR = ('9.9.9.9', 1234)
PARENT_ADDR = ('9.9.8.8', 2234)   # potential parents that accept the connection (`parent` op)
MAX_CHILDREN = 5                  # DistributedNetwork._max_children before any GetUserStats answer
PEER_TALK_INTERVAL = 20.0         # a live distributed peer is never silent for PEER_READ_TIMEOUT (60 s)
REQUEST_TIMEOUT = 100000          # search request timers never expire inside a scenario
WISHLIST_INTERVAL = 100000
HOUR_TICKS = 7200
KNOWN_RESIDUAL = 'C16-residual-tracking-after-write-failure-in-burst'

BURST_KINDS = ('SetListenPort', 'BranchLevel', 'BranchRoot', 'ToggleParentSearch', 'CheckPrivileges', 'SetStatus',
               'AddUser', 'TogglePrivateRoomInvites', 'JoinRoom', 'AddInterest', 'AddHatedInterest',
               'SharedFoldersFiles')


# --------------------------------------------------------------------------------------------
# canonical text shared by both sides
# --------------------------------------------------------------------------------------------

def _frame_str(msg) -> Optional[str]:
    k = type(msg).__qualname__.split('.')[0]
    if k == 'SetListenPort':
        return f'SetListenPort({msg.port},{msg.obfuscated_port_amount or 0},{msg.obfuscated_port or 0})'
    if k == 'BranchLevel':
        return f'BranchLevel({msg.level})'
    if k == 'BranchRoot':
        return f'BranchRoot({msg.username})'
    if k == 'ToggleParentSearch':
        return f'ToggleParentSearch({int(bool(msg.enable))})'
    if k == 'CheckPrivileges':
        return 'CheckPrivileges'
    if k == 'SetStatus':
        return f'SetStatus({msg.status})'
    if k == 'AddUser':
        return f'AddUser({msg.username})'
    if k == 'TogglePrivateRoomInvites':
        return f'ToggleInvites({int(bool(msg.enable))})'
    if k == 'JoinRoom':
        return f'JoinRoom({msg.room})'
    if k == 'AddInterest':
        return f'AddInterest({msg.interest})'
    if k == 'AddHatedInterest':
        return f'AddHated({msg.hated_interest})'
    if k == 'SharedFoldersFiles':
        return f'Shared({msg.shared_folder_count},{msg.shared_file_count})'
    return None


def _expected_stats(cfg: dict) -> tuple[int, int]:
    if not cfg['scan'] or cfg['slowscan'] or cfg['fpd'] == 0:
        return 0, 0
    return cfg['ndirs'], cfg['ndirs'] * cfg['fpd']


def _stats_after(cfg: dict, extra: int) -> tuple[int, int]:
    """share counts once the application has put `extra` more files into the first shared directory and scanned
    again (every directory is indexed then, whether or not there was a scan at start())"""
    if cfg['fpd'] == 0:
        return (1, extra) if extra else (0, 0)
    return cfg['ndirs'], cfg['ndirs'] * cfg['fpd'] + extra


def _cfg_line(cfg: dict) -> str:
    def lst(x):
        return ','.join(x) if x else '-'
    d, f = _expected_stats(cfg)
    return ('cfg user={user} creds=1 friends={friends} liked={liked} hated={hated} favs={favs} autojoin={autojoin} '
            'invites={invites} reconnect={reconnect} sfp={sfp} logconn={logconn} reqtimeout={reqtimeout} '
            'wishlist={wishlist} scan={scan} slowscan={slowscan} race={race} clear={clear} obf={obf} clearfail={clearfail} '
            'obffail={obffail} mode={mode} ndirs={ndirs} dirs={d} files={f}').format(
        user=cfg['user'], friends=lst(cfg['friends']), liked=lst(cfg['liked']), hated=lst(cfg['hated']),
        favs=lst(cfg['favs']), autojoin=int(cfg['autojoin']), invites=int(cfg['invites']),
        reconnect=int(cfg['reconnect']), sfp=int(cfg['sfp']), logconn=int(cfg['logconn']),
        reqtimeout=int(cfg['reqtimeout']), wishlist=cfg['wishlist'], scan=int(cfg['scan']),
        slowscan=int(cfg['slowscan']), race=int(cfg.get('race', False)), clear=cfg['clear'], obf=cfg['obf'], clearfail=int(cfg['clearfail']),
        obffail=int(cfg['obffail']), mode=cfg['mode'], ndirs=cfg['ndirs'], d=d, f=f)


def _loginat_line(cfg: dict, pos, ev: str) -> str:
    """Model line of `loginat pos ev` (what the event amounts to depends on where the login is)."""
    if pos == 'pre':
        if ev == 'stop':
            return 'loginbreak pre stop'
        return 'loginbreak pre close ' + {'reset': 'read_error'}.get(ev, ev)
    inside = pos < _burst_len(cfg)
    if ev == 'stop':
        return f'loginbreak {pos} stop'
    if ev == 'eof':
        return f'loginbreak {pos} srveof'
    if ev == 'reset':           # the next write fails; after the last write the reader finds the reset
        return f'loginbreak {pos} writefail' if inside else f'loginbreak {pos} close read_error'
    return f'loginbreak {pos} close {ev}'


def _model_lines(case: dict) -> list[str]:
    lines = [_cfg_line(case['cfg'])]
    for op in case['ops']:
        k = op[0]
        if k in ('logincut', 'loss', 'tick', 'srvreply', 'lossheld', 'lossrec', 'plevel', 'proot'):
            lines.append(f'{k} {op[1]}')
        elif k == 'parent':
            lines.append(f'parent {op[1]} {op[2]} {op[3]}')
        elif k == 'rescan':
            d, f = _stats_after(case['cfg'], op[1])
            lines.append(f'rescan {d} {f}')
        elif k == 'srvup':
            lines.append(f'srvup {int(op[1])}')
        elif k == 'loginat':
            lines.append(_loginat_line(case['cfg'], op[1], op[2]))
        else:
            lines.append(k)
    return lines


# --------------------------------------------------------------------------------------------
# implementation side
# --------------------------------------------------------------------------------------------

class _Server:
    """Scripted server: records every decodable request, answers Login (per mode) and AddUser."""

    def __init__(self, m):
        self.m = m
        self.mode = 'accepted'
        self.received: list = []
        self.writers: list = []
        self.pos: dict = {}            # connection index -> [level, root, searching] as last told on that connection

    async def handler(self, reader, writer):
        m = self.m
        self.writers.append(writer)
        idx = len(self.writers) - 1
        while True:
            try:
                hdr = await reader.readexactly(4)
                (n,) = struct.unpack('<I', hdr)
                body = await reader.readexactly(n)
            except (asyncio.IncompleteReadError, ConnectionError):
                return
            try:
                msg = m.ServerMessage.deserialize_request(hdr + body)
            except Exception:
                self.received.append(None)
                continue
            self.received.append(msg)
            if isinstance(msg, m.BranchLevel.Request):
                self.pos.setdefault(idx, [None, None, None])[0] = msg.level
            elif isinstance(msg, m.BranchRoot.Request):
                self.pos.setdefault(idx, [None, None, None])[1] = msg.username
            elif isinstance(msg, m.ToggleParentSearch.Request):
                self.pos.setdefault(idx, [None, None, None])[2] = int(bool(msg.enable))
            if writer.is_closing():
                continue
            if isinstance(msg, m.Login.Request):
                if self.mode == 'accepted':
                    writer.write(m.Login.Response(success=True, greeting='hello', ip='1.2.3.4', md5hash='0' * 32,
                                                  privileged=False).serialize())
                elif self.mode == 'rejected':
                    writer.write(m.Login.Response(success=False, reason='INVALIDPASS').serialize())
                elif self.mode == 'garbled':
                    writer.write(struct.pack('<II', 4, 1))      # a Login reply without a body
                elif self.mode == 'hold':                       # no answer (yet)
                    pass
                else:                                           # 'eof': close instead of answering
                    writer.close()
            elif isinstance(msg, m.GetPeerAddress.Request):
                # every peer is unreachable: its address is an endpoint that never completes the connect
                writer.write(m.GetPeerAddress.Response(username=msg.username, ip=PP_ADDR[0], port=PP_ADDR[1],
                                                       obfuscated_port_amount=0, obfuscated_port=0).serialize())
            elif isinstance(msg, m.AddUser.Request):
                writer.write(m.AddUser.Response(username=msg.username, exists=True, status=2,
                                                user_stats=m.UserStats(1, 1, 1, 1), country_code='BE').serialize())

    def send(self, msg):
        self.writers[-1].write(msg.serialize())


_TASK_NAMES = {
    'server-connection-watchdog-task': 'watchdog', 'server-ping-task': 'ping', 'user-management-task': 'user-mgmt',
    'transfer-management-task': 'transfer-mgmt', 'transfer-progress-task': 'transfer-progress',
    'log-connections-task': 'log-connections', 'upnp-task': 'upnp', 'wishlist-task': 'wishlist',
}
_TASK_PREFIXES = [
    ('potential-parent-', 'potential-parent'), ('direct-connect-', 'direct-connect'),
    ('indirect-connect-', 'indirect-connect'), ('connect-to-peer-', 'connect-to-peer'),
    ('search-reply-', 'search-reply'), ('queue-message-task-', 'queued-message'),
    ('queue-remotely-', 'queue-remotely'), ('initialize-upload-', 'init-upload'),
    ('initialize-download-', 'init-download'),
]
_TASK_CORO = {
    'DataConnection._message_reader_loop': 'reader', 'UserTrackingManager._tracking_task': 'tracking',
    'UserTrackingManager._request_retry': 'track-retry', 'SharesManager.scan': 'scan',
}


def _classify(task: asyncio.Task) -> Optional[str]:
    """Spawn site of a pending task; None for tasks of the harness."""
    coro = task.get_coro()
    qual = getattr(coro, '__qualname__', '?')
    if qual.startswith('_Server.') or qual.startswith('_run_impl'):
        return None
    name = task.get_name()
    if name in _TASK_NAMES:
        return _TASK_NAMES[name]
    for p, s in _TASK_PREFIXES:
        if name.startswith(p):
            return s
    if qual in _TASK_CORO:
        return _TASK_CORO[qual]
    if qual in ('SharesManager.scan_directory_files', 'SharesManager.scan_directory_file_attributes'):
        return 'scan-child'         # gather() child of the scan task, awaited inline by it
    if qual == 'Timer.runner':
        try:
            timer = coro.cr_frame.f_locals['self']
            req = timer.callback.args[0]
            return 'wishlist-timer' if req.search_type.name == 'WISHLIST' else 'search-timer'
        except Exception:
            return 'timer'
    return 'other:' + qual


def _descendants(task: asyncio.Task, acc: set):
    """Tasks a task is waiting for through `asyncio.gather` (transitively): the sends of a call in progress."""
    fut = getattr(task, '_fut_waiter', None)
    for ch in getattr(fut, '_children', None) or ():
        if isinstance(ch, asyncio.Task) and ch not in acc:
            acc.add(ch)
            _descendants(ch, acc)


def _in_app_listener(task: asyncio.Task) -> bool:
    """Is the task suspended inside one of the harness's (= the application's) gate listeners?"""
    c = task.get_coro()
    for _ in range(200):
        if c is None:
            return False
        if getattr(c, '__name__', '') in ('gate_state', 'gate_destr', 'gate_init'):
            return True
        c = getattr(c, 'cr_await', None)
    return False


def _run_impl(case: dict) -> dict:
    from aioslsk.client import SoulSeekClient
    from aioslsk.settings import Settings
    from aioslsk.protocol import messages as m
    from aioslsk.events import SessionInitializedEvent, SessionDestroyedEvent, ConnectionStateChangedEvent
    from aioslsk.network.connection import ServerConnection, ConnectionState, CloseReason
    from aioslsk.exceptions import AuthenticationError, InvalidSessionError
    from aioslsk.commands import GetUserStatusCommand

    cfg = case['cfg']
    tmp = tempfile.mkdtemp(prefix='c16-')
    dirs = []
    for i in range(cfg['ndirs']):
        d = os.path.join(tmp, f'share{i}')
        os.makedirs(d)
        for j in range(cfg['fpd']):
            with open(os.path.join(d, f'file{j}.txt'), 'wb') as fh:
                fh.write(b'x' * 10)
        dirs.append(d)
    prev_disable = logging.root.manager.disable
    logging.disable(logging.CRITICAL)

    async def main(loop):
        net = fakenet.FakeNet().install()
        srv = _Server(m)
        endpoint = fakenet.Endpoint('accept', srv.handler)
        net.endpoints[('srv', SERVER_PORT)] = endpoint
        # peers are unreachable: the connect never completes — or (directed cases, `peerdelay` ticks) it would
        # complete only after the scenario has called stop()
        if cfg.get('peerdelay'):
            net.endpoints[PP_ADDR] = fakenet.Endpoint('delay', None, delay=cfg['peerdelay'] * 0.5)
        else:
            net.endpoints[PP_ADDR] = fakenet.Endpoint('hang')
        # ---- distributed peers (round 5): a potential parent that accepts the connection, children that connect in
        dist = {'parent': None, 'kids': [], 'nkids': 0, 'accepted': []}

        async def parent_handler(reader, writer):
            dist['accepted'].append(writer)

        net.endpoints[PARENT_ADDR] = fakenet.Endpoint('accept', parent_handler)

        async def feeder(w):
            # the remote end of a distributed connection keeps talking (a parent relays searches all the time): a
            # DistributedPing every 20 s, which the library ignores
            while not (w._closed or getattr(w, '_peer_gone', False)):
                await asyncio.sleep(PEER_TALK_INTERVAL)
                if w._closed or getattr(w, '_peer_gone', False):
                    break
                w.write(m.DistributedPing.Request().serialize())

        def lib_side(remw):
            return next(a for a, b in net.pairs if b is remw)

        def parent_open():
            p = dist['parent']
            return p is not None and not p['w']._closed and not p['lib']._closed

        def open_kids():
            return [k for k in dist['kids'] if not k['w']._closed and not k['lib']._closed]

        if cfg['clearfail'] and cfg['clear']:
            net.bind_fail_ports.add(cfg['clear'])
        if cfg['obffail'] and cfg['obf']:
            net.bind_fail_ports.add(cfg['obf'])
        if cfg['slowscan']:
            loop.run_in_executor = lambda ex, fn, *a: loop.create_future()       # the scan never finishes
        settings = Settings(
            credentials={'username': cfg['user'], 'password': 'pw'},
            network={'server': {'hostname': 'srv', 'port': SERVER_PORT,
                                'reconnect': {'auto': cfg['reconnect'], 'timeout': 10}},
                     'listening': {'port': cfg['clear'], 'obfuscated_port': cfg['obf'], 'error_mode': cfg['mode']},
                     'upnp': {'enabled': False},
                     'peer': {'connect_mode': 'race' if cfg.get('race') else 'fallback'}},
            users={'friends': list(cfg['friends'])},
            interests={'liked': list(cfg['liked']), 'hated': list(cfg['hated'])},
            rooms={'favorites': list(cfg['favs']), 'auto_join': cfg['autojoin'],
                   'private_room_invites': cfg['invites']},
            searches={'send': {'request_timeout': REQUEST_TIMEOUT if cfg['reqtimeout'] else 0},
                      'wishlist': [{'query': f'wish{i}', 'enabled': True} for i in range(cfg['wishlist'])]},
            shares={'scan_on_start': cfg['scan'], 'directories': [{'path': d} for d in dirs], 'download': tmp},
            debug={'search_for_parent': cfg['sfp'], 'log_connection_count': cfg['logconn']},
        )
        client = SoulSeekClient(settings)
        ev = {'init': 0, 'destr': 0, 'conn': 0, 'closed': []}

        async def on_init(e):
            ev['init'] += 1

        async def on_destroyed(e):
            ev['destr'] += 1

        async def on_state(e):
            if isinstance(e.connection, ServerConnection):
                if e.state == ConnectionState.CONNECTED:
                    ev['conn'] += 1

        async def on_closed_first(e):
            # first in the chain (priority 0): the report itself, whatever the later listeners do
            if isinstance(e.connection, ServerConnection) and e.state == ConnectionState.CLOSED:
                ev['closed'].append(e.close_reason.name.lower())

        # ---- listeners of the "application" that suspend (gates opened by the schedule) or reconnect in place;
        # registered last: every listener of the library has run when they are reached
        arm: dict = {'closed': None, 'destr': None, 'init': None}
        held: list = []                  # gates of listeners that are suspended now
        nested = {'fail': 0, 'inv': 0}

        async def gate_state(e):
            if not isinstance(e.connection, ServerConnection) or e.state != ConnectionState.CLOSED:
                return
            g, arm['closed'] = arm['closed'], None
            if g is None:
                return
            if g == 'reconnect':
                try:
                    await client.network.connect_server()
                except Exception:
                    nested['fail'] += 1
                if sconn.state == ConnectionState.CONNECTED and client.session is None and not flags['stopped']:
                    try:
                        await client.login()
                    except Exception:
                        pass
                else:
                    nested['inv'] += 1
                return
            held.append(g)
            await g.wait()

        async def gate_destr(e):
            g, arm['destr'] = arm['destr'], None
            if g is None:
                return
            held.append(g)
            await g.wait()

        async def gate_init(e):
            g, arm['init'] = arm['init'], None
            if g is None:
                return
            held.append(g)
            await g.wait()

        client.events.register(SessionInitializedEvent, on_init)
        client.events.register(SessionInitializedEvent, gate_init, priority=1000)
        client.events.register(SessionDestroyedEvent, on_destroyed)
        client.events.register(ConnectionStateChangedEvent, on_state)
        client.events.register(ConnectionStateChangedEvent, on_closed_first, priority=0)
        client.events.register(ConnectionStateChangedEvent, gate_state, priority=1000)
        client.events.register(SessionDestroyedEvent, gate_destr, priority=1000)
        keep = [on_init, on_destroyed, on_state, on_closed_first, gate_state, gate_destr, gate_init]
        sconn = client.network.server_connection
        flags = {'started': False, 'stopped': False}
        marks = {'att': 0, 'recv': 0, 'init': 0, 'destr': 0, 'conn': 0, 'closed': 0, 'any_att': 0}
        me = asyncio.current_task()
        app_calls: list = []             # calls of the application that are still in progress (tasks of the harness)

        def reader_alive():
            t = sconn._reader_task
            return t is not None and not t.done()

        def lib_writer():
            """the library's end of the newest socket to the server (not taken from the connection object: a
            defective library may have dropped its reference)"""
            return [a for a, b in net.pairs if a.peername == ('srv', SERVER_PORT)][-1]

        def wd_sleeping():
            """Is the reconnect watchdog inside its job (= waiting out the reconnect delay)?"""
            t = client.network._connection_watchdog_task._task
            if t is None or t.done():
                return False
            aw = getattr(t.get_coro(), 'cr_await', None)
            return getattr(aw, '__name__', '') == '_server_connection_watchdog_job'

        def pending_tasks():
            """(spawn site, task) of every pending task started by the library that does not belong to a call of
            the application still in progress."""
            mine = set(app_calls)
            for t in list(mine):
                _descendants(t, mine)
            out = []
            for t in asyncio.all_tasks():
                if t is me or t.done() or t in mine:
                    continue
                s = _classify(t)
                if s is not None:
                    out.append((s, t))
            if any(s == 'scan' for s, _ in out):       # children live and die with the scan task
                out = [(s, t) for s, t in out if s != 'scan-child']
            return sorted(out, key=lambda x: x[0])

        def pending_sites():
            return [s for s, _ in pending_tasks()]

        def held_sites():
            """library tasks that are suspended inside a listener of the application"""
            return [s for s, t in pending_tasks() if _in_app_listener(t)]

        async def call(coro):
            try:
                await coro
                return 'ok'
            except AuthenticationError:
                return 'auth'
            except asyncio.CancelledError:
                raise
            except Exception:
                return 'err'

        async def do_event(evk):
            """The event that hits a login in progress; returns (result of stop(), tasks when stop() returned)."""
            if evk == 'stop':
                flags['stopped'] = True
                r = ''
                try:
                    await client.stop()
                except BaseException as e:      # noqa
                    r = 'raised:' + type(e).__name__
                return r, pending_sites()
            if evk == 'requested':
                await client.network.disconnect_server()
            elif evk in ('timeout', 'unknown'):
                await sconn.disconnect(CloseReason[evk.upper()])
            elif evk == 'eof':
                srv.writers[-1].close()
            elif evk == 'reset':
                srv.writers[-1].reset()
            else:
                raise ValueError(f'bad event {evk!r}')
            return '', None

        def snapshot(res='', exe='', fail=0, inv=0, tasks=None):
            srv_att = [a for a in net.attempts if a == ('srv', SERVER_PORT)]
            new_msgs = srv.received[marks['recv']:]
            frames = sorted(f for f in (_frame_str(x) for x in new_msgs if x is not None) if f is not None)
            logins = sum(1 for x in new_msgs if isinstance(x, m.Login.Request))
            dn = client.distributed_network
            params = any(v is not None for v in (dn.parent_min_speed, dn.parent_speed_ratio, dn.min_parents_in_cache,
                                                 dn.parent_inactivity_timeout, dn.distributed_alive_interval))
            par = dn.parent
            par_s = '-' if par is None else f'{par.username}/{par.branch_root}/{par.branch_level}'
            told = srv.pos.get(len(srv.writers) - 1) if sconn.state == ConnectionState.CONNECTED else None
            told_s = '-' if told is None else '/'.join('?' if v is None else str(v) for v in told)
            line = ('att={att} conn={conn} closed={closed} login={login} init={init} destr={destr} res={res} '
                    'exec={exe} fail={fail} inv={inv} frames={frames} | c={c} s={s} tasks={tasks} tracked={tracked} '
                    'u={u} r={r} p={p} open={open} par={par} kids={kids} told={told}').format(
                par=par_s, kids=len(dn.children), told=told_s,
                att=len(srv_att) - marks['att'], conn=ev['conn'] - marks['conn'],
                closed=','.join(ev['closed'][marks['closed']:]), login=logins,
                init=ev['init'] - marks['init'], destr=ev['destr'] - marks['destr'], res=res, exe=exe, fail=fail,
                inv=inv, frames=';'.join(frames), c=sconn.state.name.lower().replace('uninitialized', 'uninit'),
                s=int(client.session is not None), tasks=','.join(pending_sites() if tasks is None else tasks),
                tracked=','.join(sorted(client.users._tracking_manager._tracked_users)),
                u=int(len(client.users._users) > 0 or len(client.users.privileged_users) > 0),
                r=int(len(client.rooms.rooms) > 0), p=int(params),
                open=net.open_sockets() + len(net.listeners))
            extra = {'any_att': len(net.attempts) - marks['any_att'], 'other_frames': len(new_msgs) - len(frames) - logins,
                     'held': held_sites(), 'login_in_progress': any(not t.done() for t in app_calls),
                     # network truth: is any connection to a peer that announced itself as a parent still open?
                     'parent_conn_open': parent_open()}
            marks.update(att=len(srv_att), recv=len(srv.received), init=ev['init'], destr=ev['destr'],
                         conn=ev['conn'], closed=len(ev['closed']), any_att=len(net.attempts))
            return line, extra

        lines, extras = [], []
        for i, op in enumerate(case['ops']):
            k = op[0]
            eps = 2.0 ** -(12 + min(i, 28))
            res, exe, fail, inv, tasks_at_return = '', '', 0, 0, None
            connected = sconn.state == ConnectionState.CONNECTED
            can_login = connected and client.session is None and not reader_alive() and not flags['stopped']
            if k == 'start':
                if flags['started']:
                    inv = 1
                else:
                    flags['started'] = True
                    try:
                        await client.start()
                    except Exception:
                        fail = 1
            elif k == 'login':
                if not can_login:
                    inv = 1
                else:
                    try:
                        await client.login()
                        res = 'ok'
                    except AuthenticationError:
                        res = 'auth'
                    except Exception:
                        res = 'err'
            elif k == 'logincut':
                if not can_login:
                    inv = 1
                else:
                    saved_mode, srv.mode = srv.mode, 'accepted'
                    w = lib_writer()
                    cnt = {'n': -1}

                    def on_write(data, w=w, cnt=cnt, j=op[1]):
                        cnt['n'] += 1
                        if cnt['n'] == j:
                            w.fail_after = len(w.sent)      # the next write hits a reset connection

                    w.on_write = on_write
                    try:
                        await client.login()
                        res = 'ok'
                    except AuthenticationError:
                        res = 'auth'
                    except Exception:
                        res = 'err'
                    await simloop.settle()
                    if not w._closed:
                        w.fail_after = None
                    w.on_write = None
                    srv.mode = saved_mode
            elif k in ('loginat', 'loginrace'):
                pos, evk = op[1], op[2]
                if not can_login:
                    inv = 1
                else:
                    saved_mode, srv.mode = srv.mode, ('hold' if pos == 'pre' else 'accepted')
                    w = lib_writer()
                    gate = asyncio.Event()
                    if k == 'loginat' and pos != 'pre':
                        cnt = {'n': -1}

                        def on_write(data, w=w, cnt=cnt, j=pos, gate=gate):
                            cnt['n'] += 1
                            if cnt['n'] == j + 1:           # write 0 is the Login request
                                w.drain_gate = gate         # this drain and every later one wait for the schedule

                        w.on_write = on_write
                    lt = asyncio.ensure_future(call(client.login()))
                    app_calls.append(lt)
                    if k == 'loginat':
                        await simloop.settle()
                    else:
                        for _ in range(pos):
                            await asyncio.sleep(0)
                    stopres, tasks_at_return = await do_event(evk)
                    await simloop.settle()
                    late = pending_sites() if evk == 'stop' else None     # created after stop() returned
                    gate.set()
                    w.drain_gate = None
                    w.on_write = None
                    await simloop.settle()
                    res = stopres or await lt
                    if not lt.done():
                        await lt
                    app_calls.remove(lt)
                    srv.mode = saved_mode
                    if tasks_at_return is not None:
                        tasks_at_return = sorted(tasks_at_return + [t for t in late if t not in tasks_at_return])
            elif k == 'loginslow':
                if not can_login:
                    inv = 1
                else:
                    saved_mode, srv.mode = srv.mode, 'accepted'
                    arm['init'] = asyncio.Event()
                    lt = asyncio.ensure_future(call(client.login()))
                    app_calls.append(lt)
                    await simloop.settle()
                    arm['init'] = None
                    srv.mode = saved_mode
            elif k == 'peerin':
                if cfg['clear'] not in net.listeners:
                    inv = 1
                else:
                    for j in range(op[1]):
                        nn = len(keep)
                        rr, rw = await net.connect_in(cfg['clear'], ('10.0.1.%d' % (nn % 250), 40000 + nn))
                        rw.write(m.PeerInit.Request(username=f'peer{nn}', typ='P', ticket=nn).serialize())
                        keep.append((rr, rw))
            elif k == 'parent':
                # the server names a potential parent op[1] that accepts the connection; once the connection stands
                # the peer announces its place in the tree: level op[2] (and, unless 0, the branch root op[3])
                if not reader_alive() or not cfg['sfp'] or parent_open() or flags['stopped']:
                    inv = 1
                else:
                    name = op[1]
                    n0 = len(dist['accepted'])
                    srv.send(m.PotentialParents.Response(entries=[m.PotentialParent(
                        username=name, ip=PARENT_ADDR[0], port=PARENT_ADDR[1])]))
                    await simloop.settle()
                    if len(dist['accepted']) != n0 + 1:
                        fail = 1                    # the library did not connect to the potential parent
                    else:
                        w = dist['accepted'][-1]
                        dist['parent'] = {'name': name, 'w': w, 'lib': lib_side(w)}
                        keep.append(asyncio.ensure_future(feeder(w)))
                        w.write(m.DistributedBranchLevel.Request(op[2]).serialize())
                        if op[2] != 0:
                            w.write(m.DistributedBranchRoot.Request(op[3]).serialize())
            elif k in ('plevel', 'proot', 'ploss'):
                if not parent_open():
                    inv = 1
                elif k == 'plevel':
                    dist['parent']['w'].write(m.DistributedBranchLevel.Request(op[1]).serialize())
                elif k == 'proot':
                    dist['parent']['w'].write(m.DistributedBranchRoot.Request(op[1]).serialize())
                else:
                    dist['parent']['w'].close()
            elif k == 'child':
                if cfg['clear'] not in net.listeners or len(open_kids()) >= MAX_CHILDREN or flags['stopped']:
                    inv = 1
                else:
                    nn = dist['nkids']
                    dist['nkids'] += 1
                    rr, rw = await net.connect_in(cfg['clear'], ('10.0.2.%d' % (nn % 250), 41000 + nn))
                    rw.write(m.PeerInit.Request(username=f'kid{nn}', typ='D', ticket=nn).serialize())
                    dist['kids'].append({'w': rw, 'r': rr, 'lib': lib_side(rw)})
                    keep.append(asyncio.ensure_future(feeder(rw)))
            elif k == 'closs':
                if not open_kids():
                    inv = 1
                else:
                    open_kids()[0]['w'].close()
            elif k == 'rescan':
                # the application brings the first shared directory to op[1] extra files and scans again
                if not flags['started'] or flags['stopped'] or cfg['slowscan'] or not dirs:
                    inv = 1
                else:
                    for j in range(op[1]):
                        fn = os.path.join(dirs[0], f'extra{j}.txt')
                        if not os.path.exists(fn):
                            with open(fn, 'wb') as fh:
                                fh.write(b'y' * 10)
                    try:
                        await client.shares.scan()
                    except Exception:
                        fail = 1
            elif k == 'breakwrites':
                if not connected:
                    inv = 1
                else:
                    w = lib_writer()
                    w.fail_after = len(w.sent)
                    if op[1]:
                        async def gone():
                            return None
                        w.wait_closed = gone
            elif k == 'lossheld':
                r, which = op[1], op[2]
                if not connected or r == 'connect_failed' or (r in ('eof', 'read_error') and not reader_alive()):
                    inv = 1
                else:
                    if which == 'destr' and client.session is None:
                        which = 'closed'                    # no session: no SessionDestroyedEvent to wait in
                    arm[which] = asyncio.Event()
                    t = None
                    if r == 'eof':
                        srv.writers[-1].close()
                    elif r == 'read_error':
                        srv.writers[-1].reset()
                    elif r == 'write_error':
                        w = lib_writer()
                        w.fail_after = len(w.sent)
                        t = asyncio.ensure_future(call(client.network.send_server_messages(m.Ping.Request())))
                    elif r == 'requested':
                        t = asyncio.ensure_future(call(client.network.disconnect_server()))
                    else:
                        t = asyncio.ensure_future(call(sconn.disconnect(CloseReason[r.upper()])))
                    if t is not None:
                        app_calls.append(t)
                    await simloop.settle()
                    arm[which] = None
            elif k == 'release':
                if not held:
                    inv = 1
                else:
                    for g in held:
                        g.set()
                    held.clear()
                    await simloop.settle()
                    for t in list(app_calls):
                        if t.done():
                            app_calls.remove(t)
            elif k == 'connect':
                if not flags['started'] or flags['stopped'] or sconn.state != ConnectionState.CLOSED or wd_sleeping():
                    inv = 1
                else:
                    try:
                        await client.network.connect_server()
                    except Exception:
                        fail = 1
            elif k == 'lossrec':
                r = op[1]
                if not connected or r == 'connect_failed' or (r in ('eof', 'read_error') and not reader_alive()):
                    inv = 1
                else:
                    arm['closed'] = 'reconnect'
                    nested.update(fail=0, inv=0)
                    if r == 'eof':
                        srv.writers[-1].close()
                    elif r == 'read_error':
                        srv.writers[-1].reset()
                    elif r == 'write_error':
                        w = lib_writer()
                        w.fail_after = len(w.sent)
                        await call(client.network.send_server_messages(m.Ping.Request()))
                    elif r == 'requested':
                        await client.network.disconnect_server()
                    else:
                        await sconn.disconnect(CloseReason[r.upper()])
                    await simloop.settle()
                    arm['closed'] = None
                    fail, inv = nested['fail'], nested['inv']
            elif k == 'exec':
                try:
                    await client.execute(GetUserStatusCommand('someone'))
                    exe = 'sent'
                except InvalidSessionError:
                    exe = 'refused'
                except Exception as e:          # not refused, and the send failed
                    exe = 'error:' + type(e).__name__
            elif k in ('populate', 'wl', 'pp', 'sr'):
                if not reader_alive():
                    inv = 1
                elif k == 'populate':
                    srv.send(m.RoomList.Response(rooms=['room1'], rooms_user_count=[1], rooms_private_owned=[],
                                                 rooms_private_owned_user_count=[], rooms_private=[],
                                                 rooms_private_user_count=[], rooms_private_operated=[]))
                    srv.send(m.PrivilegedUsers.Response(users=['priv1']))
                    srv.send(m.ParentMinSpeed.Response(speed=1))
                    srv.send(m.ParentSpeedRatio.Response(ratio=50))
                    srv.send(m.MinParentsInCache.Response(amount=10))
                    srv.send(m.ParentInactivityTimeout.Response(timeout=300))
                    srv.send(m.DistributedAliveInterval.Response(interval=60))
                elif k == 'wl':
                    srv.send(m.WishlistInterval.Response(interval=WISHLIST_INTERVAL))
                elif k == 'sr':
                    srv.send(m.ServerSearchRequest.Response(distributed_code=3, unknown=0, username='asker',
                                                            ticket=4242, query='file0'))
                else:
                    srv.send(m.PotentialParents.Response(entries=[m.PotentialParent(username='ppuser', ip=PP_ADDR[0],
                                                                                    port=PP_ADDR[1])]))
            elif k == 'search':
                if not flags['started'] or flags['stopped'] or sconn.state == ConnectionState.UNINITIALIZED:
                    inv = 1
                else:
                    try:
                        await client.searches.search('query')
                    except Exception as e:      # a search cannot be sent: a failure when there is a session
                        exe = 'search-error:' + type(e).__name__
            elif k == 'loss':
                r = op[1]
                if not connected or r == 'connect_failed' or (r in ('eof', 'read_error') and not reader_alive()):
                    inv = 1
                elif r == 'eof':
                    srv.writers[-1].close()
                elif r == 'read_error':
                    srv.writers[-1].reset()
                elif r == 'write_error':
                    w = lib_writer()
                    w.fail_after = len(w.sent)
                    try:
                        await client.network.send_server_messages(m.Ping.Request())
                    except Exception:
                        pass
                elif r == 'requested':
                    await client.network.disconnect_server()
                else:       # timeout / unknown: the call DataConnection._read/_send make on that path
                    await sconn.disconnect(CloseReason[r.upper()])
            elif k == 'tick':
                await asyncio.sleep(op[1] * 0.5 + eps)
            elif k == 'srvup':
                endpoint.behaviour = 'accept' if op[1] else 'refuse'
            elif k == 'srvreply':
                srv.mode = op[1]
            elif k == 'stop':
                if not flags['started'] or flags['stopped']:
                    inv = 1
                else:
                    flags['stopped'] = True
                    try:
                        await client.stop()
                    except BaseException as e:      # noqa  (RecursionError is what the unfixed code raises)
                        res = 'raised:' + type(e).__name__
                    tasks_at_return = pending_sites()
            else:
                raise ValueError(f'bad op {op!r}')
            await simloop.settle()
            line, extra = snapshot(res, exe, fail, inv, tasks_at_return)
            extra['tasks_settled'] = pending_sites()
            lines.append(line)
            extras.append(extra)
        keep.append(client)
        net.uninstall()
        return lines, extras

    try:
        (lines, extras), loop = simloop.run(main, wall_timeout=120.0)
        return {'lines': lines, 'extras': extras}
    finally:
        logging.disable(prev_disable)
        shutil.rmtree(tmp, ignore_errors=True)


# --------------------------------------------------------------------------------------------
# canonicalisation of the known-finding region
# --------------------------------------------------------------------------------------------

def _parse(line: str) -> dict:
    head, _, tail = line.partition(' | ')
    d = {}
    for part in (head + ' ' + tail).split(' '):
        k, _, v = part.partition('=')
        d[k] = v
    return d


def _burst_len(cfg: dict) -> int:
    n_track = 1 + len([f for f in cfg['friends'] if f != cfg['user']])
    return (1 + 3 + 2 + n_track + 1 + (len(cfg['favs']) if cfg['autojoin'] else 0)
            + len(cfg['liked']) + len(cfg['hated']) + 1)


def _interrupted(cfg: dict, op: list) -> bool:
    """A login whose burst is interrupted: which of the frames written around the interruption reach the server
    depends on how the tracking tasks' writes interleave with the listeners' — not compared."""
    n = _burst_len(cfg)
    if op[0] == 'logincut':
        return op[1] < n
    if op[0] == 'loginat':
        return op[1] != 'pre' and op[1] < n
    return False


def _canon(case: dict, lines: list[str]) -> list[str]:
    out = []
    for op, l in zip(case['ops'], lines):
        if _interrupted(case['cfg'], op):
            head, _, tail = l.partition(' | ')
            head = ' '.join(p if not p.startswith('frames=') else 'frames=*' for p in head.split(' '))
            if op[0] == 'loginat' and op[2] == 'reset':
                # when the last write of the burst belongs to a tracking task, login() has returned and its reader
                # meets the reset before the suspended write does: the same unrequested loss under another name
                head = head.replace('closed=read_error ', 'closed=write_error ')
            l = head + ' | ' + tail
        out.append(l)
    return out


# --------------------------------------------------------------------------------------------
# monitor: the property statement on the implementation trace (independent of the model)
# --------------------------------------------------------------------------------------------

def _position(cfg: dict, par: str) -> tuple[int, str, int]:
    """The branch position (level, root, searching for a parent) of a client whose distributed parent is `par`
    (`-` or `name/root/level` as the parent announced them): without a parent, or as the root of its own branch,
    level 0 of its own branch; else one below the parent in the parent's branch.  Searching iff there is no parent
    and `debug.search_for_parent`."""
    if par in ('-', ''):
        return 0, cfg['user'], int(cfg['sfp'])
    _name, root, level = par.rsplit('/', 2)
    if root == cfg['user']:
        return 0, cfg['user'], 0
    return int(level) + 1, root, 0


def _expected_burst(cfg: dict, par: str = '-', extra: Optional[int] = None) -> tuple[list[str], set[str]]:
    """(frames that must be there exactly once — AddUser excluded, allowed optional AddUser names); `par`: the
    distributed parent the client has at this login (it survives a loss of the server connection); `extra`: files
    the application has added to the shares (and scanned) since start()"""
    port = cfg['clear'] if cfg['clear'] and not cfg['clearfail'] else 0
    obf = cfg['obf'] if cfg['obf'] and not cfg['obffail'] else 0
    d, f = _stats_after(cfg, extra) if extra is not None else _expected_stats(cfg)
    level, root, searching = _position(cfg, par)
    want = [f'SetListenPort({port},{1 if obf else 0},{obf})', 'CheckPrivileges', 'SetStatus(2)', f'Shared({d},{f})',
            f"ToggleInvites({int(cfg['invites'])})", f'BranchLevel({level})', f'BranchRoot({root})',
            f'ToggleParentSearch({searching})']
    want += [f'AddInterest({x})' for x in cfg['liked']] + [f'AddHated({x})' for x in cfg['hated']]
    if cfg['autojoin']:
        want += [f'JoinRoom({x})' for x in cfg['favs']]
    return want, {cfg['user']}


def _is_stop(op: list) -> bool:
    return op[0] == 'stop' or (op[0] in ('loginat', 'loginrace') and op[2] == 'stop')


def _minus(tasks: list[str], held: list[str]) -> list[str]:
    """tasks without those that are suspended inside a listener of the application (multiset difference)"""
    out = list(tasks)
    for h in held:
        if h in out:
            out.remove(h)
    return out


def _monitor(case: dict, impl: dict) -> list[Violation]:
    vs: list[Violation] = []
    cfg = case['cfg']
    ops = case['ops']
    rows = [_parse(l) for l in impl['lines']]
    extras = impl['extras']

    def add(sig, what, observed=None, required=None):
        vs.append(Violation(sig, what, case, observed=observed, required=required))

    session = False
    inits = destrs = 0
    rescanned: Optional[int] = None          # extra files in the index since the application's last scan
    stop_at = None
    # reconnect bookkeeping: after an unrequested loss, ticks seen and attempts seen
    pending_loss: Optional[dict] = None
    for i, (op, row, ex) in enumerate(zip(ops, rows, extras)):
        where = {'op_index': i, 'op': op, 'line': impl['lines'][i]}
        had_session = session
        n_init, n_destr = int(row['init']), int(row['destr'])
        closed = [r for r in row['closed'].split(',') if r]
        inits += n_init
        destrs += n_destr
        session = row['s'] == '1'
        inv = row['inv'] == '1'
        held = ex.get('held', [])
        # ---- M3: a session is destroyed exactly once
        if inits - destrs != (1 if session else 0):
            add('C16-destroy-count', f'after op #{i} {op}: {inits} sessions initialised, {destrs} destroyed, session '
                f'{"present" if session else "absent"}', where, 'initialised - destroyed = 1 iff a session is present')
        if closed and (had_session or n_init) and op[0] != 'lossrec' and \
                n_destr != n_init + (1 if had_session else 0):
            add('C16-destroy-count', f'server connection closed ({closed}) during op #{i} {op} but {n_destr} '
                f'SessionDestroyedEvent(s) for {n_init + (1 if had_session else 0)} session(s)', where)
        if session and row['c'] != 'connected':
            add('C16-session-without-connection', f'after op #{i} {op} a session is present but the server connection '
                f'is {row["c"]}', where)
        if session and row['c'] == 'connected' and 'reader' not in _minus([t for t in row['tasks'].split(',') if t], held) \
                and not _is_stop(op) and not ex.get('login_in_progress'):
            add('C16-session-without-reader', f'after op #{i} {op} a session is present but nothing reads from the '
                f'server connection (no reader task): the loss of this connection would never be noticed', where,
                'login() starts the reader of the connection it logged in on')
        # ---- M1: the burst
        if op[0] in ('login', 'tick', 'logincut', 'loginat', 'loginrace', 'lossrec', 'loginslow') and n_init == 1 and session \
                and (not closed or op[0] == 'lossrec'):
            # the position is the client's own account of its parent — unless no connection to a parent exists any
            # more: then there is no parent, whatever the client has kept
            par_now = row.get('par', '-') if ex.get('parent_conn_open', True) else '-'
            want, optional = _expected_burst(cfg, par_now, rescanned)
            got = [f for f in row['frames'].split(';') if f]
            add_users = sorted(f[8:-1] for f in got if f.startswith('AddUser('))
            rest = sorted(f for f in got if not f.startswith('AddUser('))
            if rest != sorted(want):
                missing = sorted(set(want) - set(rest))
                extra = sorted(set(rest) - set(want))
                kind = (missing + extra + ['multiplicity'])[0].split('(')[0]
                at_login = f'; at this login the distributed parent is {par_now} (name/root/level)' \
                    if kind in ('BranchLevel', 'BranchRoot', 'ToggleParentSearch') else \
                    f'; the index holds {_stats_after(cfg, rescanned)} folders / files since the last scan' \
                    if kind == 'Shared' and rescanned is not None else ''
                add(f'C16-burst-mismatch:{kind}', f'after login (op #{i}) the server was not told exactly what the '
                    f'settings say: missing {missing}, unexpected {extra}{at_login}', sorted(rest), sorted(want))
            fr = sorted(set(cfg['friends']))
            if len(set(add_users)) != len(add_users) or not set(fr) <= set(add_users) or \
                    not set(add_users) <= set(fr) | optional:
                add('C16-burst-mismatch:AddUser', f'AddUser frames after login (op #{i}): {add_users}', add_users,
                    f'every friend once: {fr} (own name optional)')
        if op[0] == 'rescan' and not inv and row['fail'] == '0':
            rescanned = op[1]
        # ---- M2: commands are refused without a session
        if op[0] == 'exec':
            if not had_session and row['exec'] != 'refused':
                add('C16-exec-not-refused', f'execute() without a session was not refused (op #{i})', where)
            if had_session and row['exec'] != 'sent':
                add('C16-exec-refused-with-session', f'execute() with a session was refused (op #{i})', where)
        if op[0] == 'search' and row['exec'].startswith('search-error') and had_session:
            add('C16-exec-refused-with-session', f'a search with a session could not be sent (op #{i}): '
                f'{row["exec"][13:]}', where)
        # ---- M4: loss resets the server-derived state (a reconnect inside the event starts a new session: lossrec)
        if closed and stop_at is None and op[0] != 'lossrec':
            left = [n for n, v in (('users', row['u']), ('rooms', row['r']), ('distributed-parameters', row['p']),
                                   ('session', row['s'])) if v == '1']
            if row['tracked']:
                left.append('tracking')
            if left and set(left) <= {'tracking', 'users'} and op[0] == 'logincut' and closed == ['write_error']:
                add(KNOWN_RESIDUAL, f'write failure inside the post-login burst (op #{i}): {left} '
                    f'(tracked: {row["tracked"]}) remain after the connection was closed', where,
                    'no tracked users, no stored users')
            elif left:
                add('C16-not-reset:' + left[0], f'server connection closed ({closed}) in op #{i} {op} but still '
                    f'stored afterwards: {left}', where, 'users, rooms, tracking, distributed parameters empty')
        # ---- M7: when a suspended listener of the application returns, the connection / session that was
        # established meanwhile is not touched
        if op[0] == 'release' and not inv:
            before = rows[i - 1]
            if closed or n_destr or (before['c'], before['s']) != (row['c'], row['s']):
                add('C16-release-disturbs-connection', f'the return of a suspended CLOSED / SessionDestroyed listener '
                    f'(op #{i}) changed the server connection: {before["c"]}/session={before["s"]} -> '
                    f'{row["c"]}/session={row["s"]}, closed {closed}', where,
                    'a connection and login made while the listener was suspended stay')
        # ---- M5: reconnect iff auto ∧ reason ∉ {requested, eof} ∧ not stopped
        if stop_at is None and not _is_stop(op):
            by_app = op[0] in ('connect', 'lossrec')            # connection attempts of the application itself
            if pending_loss is not None and op[0] == 'tick' and not inv:
                pending_loss['ticks'] += op[1]
                pending_loss['att'] += int(row['att'])
                want = pending_loss['want']
                if not want and int(row['att']):
                    add('C16-reconnect-unrequested', f'a new server connection was attempted (op #{i}) although the '
                        f'connection was closed with reason {pending_loss["reason"]} / reconnect.auto='
                        f'{cfg["reconnect"]}', where, 'no reconnect')
                if want and pending_loss['ticks'] >= 22 and pending_loss['att'] == 0:
                    add('C16-reconnect-missing', f'no reconnect attempt within {pending_loss["ticks"] * 0.5} s after an '
                        f'unrequested loss ({pending_loss["reason"]}) with reconnect.auto on', where,
                        'a connect attempt after reconnect.timeout')
                    pending_loss = None
                elif want and pending_loss['att'] and row['c'] == 'connected':
                    if int(row['login']) == 0:
                        add('C16-reconnect-no-login', f'reconnected (op #{i}) without a new login', where)
                    pending_loss = None
            elif pending_loss is not None and int(row['att']) and not by_app:
                add('C16-reconnect-unrequested', f'server connect attempt during op #{i} {op}', where)
            was_connected = i > 0 and rows[i - 1]['c'] == 'connected'
            if by_app and not inv:
                if row['c'] == 'connected':
                    pending_loss = None                          # the application has reconnected
                elif op[0] == 'lossrec' and closed:
                    # the reconnect of the application failed (the first loss stands) or the connection it made
                    # was lost again (e.g. the server answered the login by EOF: that loss stands)
                    reason = closed[-1] if int(row['conn']) else closed[0]
                    pending_loss = {'reason': reason, 'ticks': 0, 'att': 0,
                                    'want': bool(cfg['reconnect']) and reason not in ('requested', 'eof')}
            elif closed and not inv and (was_connected or int(row['conn']) or (op[0] == 'tick' and int(row['att']))):
                # an established connection was lost, or a reconnect attempt of the watchdog failed
                reason = closed[-1]
                pending_loss = {'reason': reason, 'ticks': 0, 'att': 0,
                                'want': bool(cfg['reconnect']) and reason not in ('requested', 'eof')}
        # ---- M6: stop is final (tasks that are suspended inside a listener of the application are not the
        # library's to end; they must be gone once the listener has returned)
        if _is_stop(op) and not inv:
            stop_at = i
            pending_loss = None
            if row['res'].startswith('raised'):
                add('C16-stop-raised', f'stop() raised {row["res"][7:]}', where, 'stop() returns')
            tasks = _minus([t for t in row['tasks'].split(',') if t], held)
            tasks += [t for t in _minus(ex.get('tasks_settled', []), held) if t not in tasks]
            if tasks:
                add('C16-stop-task-pending:' + tasks[0], f'after stop() returned, tasks started by the library are '
                    f'still pending: {tasks}', where, 'no pending library task')
            if int(row['open']) != 0:
                add('C16-stop-socket-open', f'after stop() returned {row["open"]} socket(s) are open', where, '0')
        elif stop_at is not None and not inv:
            tasks = _minus([t for t in row['tasks'].split(',') if t], held)
            if ex['any_att'] or int(row['att']) or int(row['conn']):
                add('C16-connect-after-stop', f'a connection was attempted/opened after stop() (op #{i} {op}, '
                    f'{ex["any_att"]} attempts)', where, 'none is opened later')
            if int(row['login']) or n_init or row['frames'] or ex['other_frames']:
                add('C16-traffic-after-stop', f'the server received frames after stop() (op #{i})', where)
            if tasks and op[0] in ('tick', 'srvup', 'srvreply', 'release'):
                add('C16-stop-task-pending:' + tasks[0], f'library tasks pending after stop(): {tasks} (op #{i})',
                    where)
            if int(row['open']) != 0:
                add('C16-stop-socket-open', f'{row["open"]} socket(s) open after stop() (op #{i})', where, '0')
    return vs


# --------------------------------------------------------------------------------------------
# generator
# --------------------------------------------------------------------------------------------

REASONS = ['eof', 'read_error', 'write_error', 'requested', 'timeout', 'unknown']


def _gen_cfg(rng: random.Random) -> dict:
    user = 'me'
    pool = ['f1', 'f2', 'f3', 'zed']
    friends = rng.sample(pool, rng.choice([0, 0, 1, 2, 3]))
    if rng.random() < 0.15:
        friends.append(user)
    port_choice = rng.choice(['both', 'both', 'both', 'clear', 'obf', 'none'])
    clear = 60000 if port_choice in ('both', 'clear') else 0
    obf = 60001 if port_choice in ('both', 'obf') else 0
    mode = {'both': rng.choice(['clear', 'clear', 'all', 'any']), 'clear': rng.choice(['clear', 'all', 'any']),
            'obf': rng.choice(['all', 'any', 'clear']), 'none': rng.choice(['any', 'any', 'all'])}[port_choice]
    return {
        'user': user, 'friends': friends,
        'liked': rng.sample(['rock', 'jazz', 'folk'], rng.choice([0, 1, 2])),
        'hated': rng.sample(['noise', 'pop'], rng.choice([0, 0, 1, 2])),
        'favs': rng.sample(['room1', 'lounge', 'dev'], rng.choice([0, 1, 2, 2])),
        'autojoin': rng.random() < 0.6, 'invites': rng.random() < 0.5, 'reconnect': rng.random() < 0.6,
        'sfp': rng.random() < 0.75, 'logconn': rng.random() < 0.2, 'reqtimeout': rng.random() < 0.6,
        'wishlist': rng.choice([0, 0, 1, 2]), 'scan': rng.random() < 0.85, 'slowscan': rng.random() < 0.1,
        'clear': clear, 'obf': obf, 'clearfail': rng.random() < 0.08, 'obffail': rng.random() < 0.1, 'mode': mode,
        'ndirs': rng.choice([0, 1, 2]), 'fpd': rng.choice([0, 1, 2, 3]), 'race': rng.random() < 0.5,
    }


def _listen_ok(cfg: dict) -> bool:
    fails = ([cfg['clearfail']] if cfg['clear'] else []) + ([cfg['obffail']] if cfg['obf'] else [])
    if cfg['mode'] == 'all':
        return not all(fails)
    if cfg['mode'] == 'any':
        return not any(fails)
    return bool(cfg['clear']) and not cfg['clearfail']


def _gen_case(rng: random.Random) -> dict:
    """Random walk biased by a ROUGH shadow of the connection state (only to make most operations applicable;
    inapplicable ones are skipped consistently by both sides)."""
    cfg = _gen_cfg(rng)
    kind = rng.choice(['idle-loss', 'idle-loss', 'burst-cut', 'login-variants', 'pending-work', 'reconnect',
                       'reconnect', 'early-stop', 'mixed', 'mixed', 'burst-break', 'burst-break', 'held-listener',
                       'held-listener', 'app-reconnect', 'distributed', 'distributed', 'distributed', 'distributed'])
    if kind == 'distributed':
        # a parent can only be adopted with search_for_parent, children need the clear listening port
        if rng.random() < 0.85:
            cfg['sfp'] = True
        if rng.random() < 0.8:
            cfg.update(clear=60000, clearfail=False, mode='clear')
    ops: list[list] = []
    sh = {'up': True, 'reply': 'accepted', 'conn': False, 'sess': False, 'reader': False, 'wd': False, 'since': 0,
          'held': 0, 'par': False, 'npar': 0, 'kids': 0, 'extra': 0}
    blen = _burst_len(cfg)
    wl_used = False

    def emit(op):
        ops.append(op)
        k = op[0]
        if k == 'srvup':
            sh['up'] = op[1]
        elif k == 'srvreply':
            sh['reply'] = op[1]
        elif k == 'start':
            sh['conn'] = _listen_ok(cfg) and sh['up']
            sh['wd'] = sh['conn'] and cfg['reconnect']
        elif k == 'login' and sh['conn'] and not sh['sess'] and not sh['reader']:
            if sh['reply'] == 'accepted':
                sh['sess'] = sh['reader'] = True
            elif sh['reply'] == 'eof':
                sh['conn'] = False
                sh['wd'] = False
        elif k == 'logincut' and sh['conn'] and not sh['sess'] and not sh['reader']:
            if op[1] >= blen:
                sh['sess'] = sh['reader'] = True
            else:
                sh['conn'] = False
                sh['since'] = 0
        elif k == 'loginat' and sh['conn'] and not sh['sess'] and not sh['reader']:
            sh['conn'] = sh['sess'] = sh['reader'] = False          # every event ends the connection
            sh['since'] = 0
            if op[2] in ('requested', 'eof', 'stop'):
                sh['wd'] = False
        elif k in ('loss', 'lossheld', 'lossrec') and sh['conn']:
            if op[1] in ('eof', 'read_error') and not sh['reader']:
                return
            sh['conn'] = sh['sess'] = sh['reader'] = False
            sh['since'] = 0
            if op[1] in ('requested', 'eof'):
                sh['wd'] = False
            if k == 'lossheld':
                sh['held'] += 1
            if k == 'lossrec' and sh['up']:
                sh['conn'] = True
                sh['wd'] = cfg['reconnect']
                if sh['reply'] == 'accepted':
                    sh['sess'] = sh['reader'] = True
                elif sh['reply'] == 'eof':
                    sh['conn'] = sh['wd'] = False
        elif k == 'release':
            sh['held'] = 0
        elif k == 'parent':
            if sh['reader'] and cfg['sfp'] and not sh['par']:
                sh['par'] = True
        elif k == 'ploss':
            sh['par'] = False
        elif k == 'child':
            sh['kids'] = min(MAX_CHILDREN, sh['kids'] + 1)
        elif k == 'closs':
            sh['kids'] = max(0, sh['kids'] - 1)
        elif k == 'connect' and not sh['conn'] and sh['up']:
            sh['conn'] = True
            sh['wd'] = cfg['reconnect']
        elif k == 'tick':
            if not sh['conn'] and sh['wd']:
                sh['since'] += op[1]
                if sh['since'] >= 21:
                    sh['since'] = 0
                    if sh['up']:
                        sh['conn'] = True
                        if sh['reply'] == 'accepted':
                            sh['sess'] = sh['reader'] = True
                        elif sh['reply'] == 'eof':
                            sh['conn'] = False
                            sh['wd'] = False

    def idle():
        emit(['tick', rng.choice([1, 2, 4, 4, 7, 21, 22, 24, 45, 50])])

    def dist():
        """something happens in the distributed network: the server names a parent that accepts the connection, the
        parent moves in the tree or goes away, a child comes or goes — with or without a session"""
        c = rng.random()
        if not sh['par'] and sh['reader'] and c < 0.6:
            level = rng.choice([0, 0, 1, 3, 7])
            root = rng.choice(['rootuser', 'rootuser', 'other', cfg['user']])
            emit(['parent', f"par{sh['npar']}", level, root])
            sh['npar'] += 1
        elif sh['par'] and c < 0.25:
            emit(['plevel', rng.choice([0, 1, 2, 5, 9])])
        elif sh['par'] and c < 0.45:
            emit(['proot', rng.choice(['rootuser', 'other', 'third', cfg['user']])])
        elif sh['par'] and c < 0.6:
            emit(['ploss'])
        elif c < 0.9 or not sh['kids']:
            emit(['child'])
        else:
            emit(['closs'])

    def work():
        nonlocal wl_used
        if kind == 'distributed' and rng.random() < 0.6 or rng.random() < 0.06:
            dist()
            return
        if cfg['ndirs'] and not cfg['slowscan'] and rng.random() < (0.12 if kind in ('distributed', 'reconnect') else 0.04):
            sh['extra'] += rng.choice([1, 1, 2, 3])
            emit(['rescan', sh['extra']])
            return
        if not sh['reader']:
            emit([rng.choice(['search', 'exec', 'exec'])])
            return
        c = rng.choice(['populate', 'search', 'wl', 'pp', 'exec', 'search', 'populate', 'pp', 'sr', 'sr'])
        if c == 'wl':
            if wl_used:
                c = 'search'
            wl_used = True
        emit([c])

    def login():
        r = rng.random()
        if kind == 'burst-break' and r < 0.75 or r < 0.08:
            ev = rng.choice(EVENTS[1:] if rng.random() < 0.8 else EVENTS)
            pos = 'pre' if rng.random() < 0.12 else rng.randint(0, blen)
            if ev == 'eof' and pos == 'pre':
                ev = 'reset'                    # = login with the server answering by EOF (login-variants)
            emit(['loginat', pos, ev])
        elif kind == 'burst-cut' and r < 0.7 or r < 0.16:
            emit(['logincut', rng.randint(0, blen + 1)])
        elif kind == 'login-variants' or r < 0.3:
            mode = rng.choice(['rejected', 'garbled', 'eof', 'accepted'])
            emit(['srvreply', mode])
            emit(['login'])
            if mode != 'accepted' and rng.random() < 0.8:
                emit(['srvreply', 'accepted'])
                if sh['conn'] and rng.random() < 0.7:
                    emit(['login'])
        else:
            if sh['reply'] != 'accepted' and rng.random() < 0.7:
                emit(['srvreply', 'accepted'])
            emit(['login'])

    def loss():
        pool = REASONS if sh['reader'] else ['write_error', 'requested', 'timeout', 'unknown']
        r = rng.random()
        if kind == 'held-listener' and r < 0.7 or r < 0.05:
            emit(['lossheld', rng.choice(pool), rng.choice(['closed', 'destr'])])
            # what happens while the listener is suspended: time (the watchdog reconnects), the application
            # reconnects, work, stop(); then the listener returns (sometimes only after stop(), or never)
            for _ in range(rng.randint(0, 3)):
                c = rng.random()
                if c < 0.45:
                    emit(['tick', rng.choice([2, 19, 20, 21, 22, 30, 44])])
                elif c < 0.65 and not sh['conn']:
                    emit(['connect'])
                    if sh['conn'] and rng.random() < 0.8:
                        emit(['login'])
                elif c < 0.8:
                    work()
                else:
                    emit(['exec'])
            if rng.random() < 0.8:
                emit(['release'])
                if sh['reader'] and rng.random() < 0.6:
                    emit(['populate'])
            return
        if kind == 'app-reconnect' and r < 0.75 or r < 0.05:
            if rng.random() < 0.5:
                emit(['lossrec', rng.choice(pool)])
            else:
                emit(['loss', rng.choice(['requested', 'eof'] if sh['reader'] else ['requested'])])
                if rng.random() < 0.3:
                    emit(['tick', rng.choice([1, 4, 21, 30])])
                emit(['connect'])
                if sh['conn'] and rng.random() < 0.85:
                    login()
            return
        emit(['loss', rng.choice(pool)])
        if rng.random() < 0.7:
            if rng.random() < 0.15:
                emit(['srvup', False])
            if rng.random() < 0.2:
                emit(['srvreply', rng.choice(['rejected', 'garbled', 'eof'])])
            emit(['tick', rng.choice([2, 10, 20, 21, 22, 30, 43, 44])])

    if rng.random() < 0.06:
        emit(['srvup', False])
    emit(['start'])
    if kind == 'early-stop':
        for _ in range(rng.randint(0, 2)):
            rng.choice([idle, lambda: emit(['exec']), lambda: emit(['search'])])()
        if rng.random() < 0.5:
            login()
    else:
        if rng.random() < 0.15:
            emit(['exec'])
        if rng.random() < 0.15:
            loss()                                   # before login
        for _ in range(rng.randint(2, 8) + (3 if kind == 'distributed' else 0)):
            r = rng.random()
            if kind == 'distributed' and (sh['par'] or sh['kids']) and r < 0.6:
                # the point of this family: the server connection goes and comes back under a standing position
                if sh['conn'] and sh['sess']:
                    if r < 0.3:
                        loss()
                        continue
                elif not sh['conn'] and sh['wd']:
                    emit(['tick', rng.choice([21, 22, 24, 30])])
                    continue
                elif not sh['conn'] and sh['up']:
                    emit(['connect'])
                    continue
            if sh['conn'] and not sh['sess'] and not sh['reader'] and r < 0.7:
                login()
            elif not sh['conn'] and not sh['wd'] and r < 0.5:
                break                                # nothing more can happen
            elif not sh['conn'] and not sh['up'] and r < 0.5:
                emit(['srvup', True])
            elif r < 0.35 or (kind == 'distributed' and r < 0.5):
                work()
            elif r < 0.6:
                idle()
            elif r < 0.88 and sh['conn']:
                loss()
            elif r < 0.93:
                emit(['srvup', rng.random() < 0.6])
            else:
                emit(['exec'])
    if rng.random() < 0.3:
        emit(['tick', rng.choice([1, 3, 9, 19, 20, 21])])
    ops = ops[:26]
    for i, op in enumerate(ops):                # nothing but time and the environment after a stop() inside a login
        if _is_stop(op):
            ops = ops[:i + 1]
            break
    else:
        ops.append(['stop'])
    if sh['held'] and rng.random() < 0.7:
        ops.append(['release'])                 # a listener that was still suspended at stop() returns afterwards
    if rng.random() < 0.25:
        ops.append(['srvup', True])
        ops.append(['srvreply', 'accepted'])
    ops.append(['tick', HOUR_TICKS])
    return {'cfg': cfg, 'ops': ops, 'kind': kind}


def _base_cfg(**kw) -> dict:
    cfg = {'user': 'me', 'friends': ['f1', 'f2'], 'liked': ['rock'], 'hated': ['pop'], 'favs': ['room1', 'dev'],
           'autojoin': True, 'invites': True, 'reconnect': True, 'sfp': True, 'logconn': False, 'reqtimeout': True,
           'wishlist': 1, 'scan': True, 'slowscan': False, 'clear': 60000, 'obf': 60001, 'clearfail': False,
           'obffail': False, 'mode': 'clear', 'ndirs': 1, 'fpd': 2, 'race': False}
    cfg.update(kw)
    return cfg


END = [['stop'], ['tick', HOUR_TICKS]]
# known schedules, always run (also the replay inputs of the fixes/C16-*.md notes)
DIRECTED = [
    # (a) favourites joined iff auto_join
    {'kind': 'directed-autojoin-on', 'cfg': _base_cfg(), 'ops': [['start'], ['login'], ['tick', 4]] + END},
    {'kind': 'directed-autojoin-off', 'cfg': _base_cfg(autojoin=False), 'ops': [['start'], ['login'], ['tick', 4]] + END},
    # (b) potential-parent connect pending at stop()
    {'kind': 'directed-pp-stop', 'cfg': _base_cfg(reconnect=False),
     'ops': [['start'], ['login'], ['pp'], ['tick', 2]] + END},
    {'kind': 'directed-pp-stop-race', 'cfg': _base_cfg(reconnect=False, race=True),
     'ops': [['start'], ['login'], ['pp'], ['tick', 2]] + END},
    # a search reply connecting to the asker at stop(): both connect modes, before / after the direct timeout
    {'kind': 'directed-sr-stop', 'cfg': _base_cfg(reconnect=False),
     'ops': [['start'], ['login'], ['sr'], ['tick', 2]] + END},
    {'kind': 'directed-sr-stop-race', 'cfg': _base_cfg(reconnect=False, race=True),
     'ops': [['start'], ['login'], ['sr'], ['pp'], ['tick', 2]] + END},
    {'kind': 'directed-sr-stop-race-late', 'cfg': _base_cfg(reconnect=False, race=True),
     'ops': [['start'], ['login'], ['sr'], ['tick', 19], ['tick', 1], ['pp'], ['tick', 30]] + END},
    # the peer WOULD accept the connection 4 s after the attempt began; stop() comes first: nothing may be opened later
    {'kind': 'directed-stop-before-peer-accepts', 'cfg': _base_cfg(reconnect=False, peerdelay=8),
     'ops': [['start'], ['login'], ['sr'], ['pp'], ['tick', 2]] + END},
    {'kind': 'directed-stop-before-peer-accepts-race', 'cfg': _base_cfg(reconnect=False, race=True, peerdelay=8),
     'ops': [['start'], ['login'], ['sr'], ['pp'], ['tick', 2]] + END},
    # connects that end by themselves (fallback 70 s, race 60 s), across a loss of the server connection
    {'kind': 'directed-connect-expires', 'cfg': _base_cfg(reconnect=False),
     'ops': [['start'], ['login'], ['sr'], ['pp'], ['tick', 100], ['loss', 'eof'], ['tick', 39], ['tick', 1]] + END},
    {'kind': 'directed-connect-expires-race', 'cfg': _base_cfg(reconnect=False, race=True),
     'ops': [['start'], ['login'], ['sr'], ['pp'], ['tick', 100], ['loss', 'eof'], ['tick', 19], ['tick', 1]] + END},
    # (c) stop() while the watchdog waits out the reconnect delay
    {'kind': 'directed-watchdog-stop', 'cfg': _base_cfg(),
     'ops': [['start'], ['login'], ['tick', 10], ['loss', 'read_error'], ['tick', 4]] + END},
    # (d) search request timers / wishlist timers pending at stop()
    {'kind': 'directed-timers-stop', 'cfg': _base_cfg(reconnect=False),
     'ops': [['start'], ['login'], ['search'], ['wl'], ['tick', 2]] + END},
    # (e) AddUser write fails inside a tracking task
    {'kind': 'directed-cut-adduser', 'cfg': _base_cfg(reconnect=False),
     'ops': [['start'], ['logincut', 6], ['tick', 4], ['exec']] + END},
    # (f) the scan started by start() is still running at stop()
    {'kind': 'directed-slow-scan', 'cfg': _base_cfg(slowscan=True, reconnect=False),
     'ops': [['start'], ['login'], ['tick', 4]] + END},
    # reconnect and re-login after an unrequested loss; none after EOF / requested
    {'kind': 'directed-reconnect', 'cfg': _base_cfg(),
     'ops': [['start'], ['login'], ['populate'], ['loss', 'write_error'], ['tick', 20], ['tick', 2], ['loss', 'eof'],
             ['tick', 50]] + END},
    # login rejected / garbled / EOF, then accepted
    {'kind': 'directed-login-variants', 'cfg': _base_cfg(reconnect=False),
     'ops': [['start'], ['exec'], ['srvreply', 'rejected'], ['login'], ['srvreply', 'garbled'], ['login'], ['exec'],
             ['srvreply', 'accepted'], ['login'], ['exec']] + END},
    # no listening ports at all / bind failure
    {'kind': 'directed-no-ports', 'cfg': _base_cfg(clear=0, obf=0, mode='any'), 'ops': [['start'], ['login']] + END},
    {'kind': 'directed-obf-bind-fails', 'cfg': _base_cfg(obffail=True), 'ops': [['start'], ['login']] + END},
    {'kind': 'directed-start-fails', 'cfg': _base_cfg(clearfail=True), 'ops': [['start'], ['exec'], ['tick', 4]] + END},
    {'kind': 'directed-server-down', 'cfg': _base_cfg(),
     'ops': [['srvup', False], ['start'], ['tick', 50], ['srvup', True], ['tick', 50]] + END},
]
# the witness of the former known finding C16-residual-tracking-after-write-failure-in-burst (repaired by
# fixes/C16-session-destroyed-during-login + fixes/C16-tracking-cancel-lost-in-failed-write)
WITNESS_RESIDUAL = {'kind': 'directed-cut-before-users', 'cfg': _base_cfg(reconnect=False),
                    'ops': [['start'], ['logincut', 1], ['tick', 4]] + END}

EVENTS = ['stop', 'requested', 'timeout', 'unknown', 'eof', 'reset']


def _break_sweep(cfg: dict, events: list[str], tag: str, pre: Optional[list] = None) -> list[dict]:
    """stop() / disconnect / loss at EVERY suspension point of login(): before the reply and in each awaited write
    of the burst; afterwards time for the watchdog, a command, stop(), 1 h.  `pre`: what happened before this login
    (default: nothing but start() — a first login)."""
    out = []
    for pos in ['pre'] + list(range(_burst_len(cfg))):
        for ev in events:
            if pos == 'pre' and ev == 'eof':
                continue                        # = `srvreply eof` + login
            ops = list(pre or [['start']]) + [['loginat', pos, ev]]
            if ev == 'stop':
                ops += [['srvup', True], ['tick', 44], ['exec'], ['tick', HOUR_TICKS]]
            else:
                ops += [['tick', 4], ['exec'], ['tick', 20], ['exec'], ['populate']] + END
            out.append({'kind': f'sweep-{tag}-{ev}', 'cfg': cfg, 'ops': ops})
    return out


def _race_sweep(cfg: dict, events: list[str], ks, tag: str) -> list[dict]:
    """The same without gates: the event is issued k loop iterations after login() started (monitor only)."""
    out = []
    for ev in events:
        for k in ks:
            ops = [['start'], ['loginrace', k, ev]]
            ops += [['tick', 44], ['exec'], ['tick', HOUR_TICKS]] if ev == 'stop' else \
                [['tick', 4], ['exec'], ['tick', 44], ['exec']] + END
            out.append({'kind': f'race-{tag}-{ev}', 'cfg': cfg, 'ops': ops, 'model': False})
    return out


HELD = [
    # the SessionDestroyed listener of the application stays suspended while the watchdog reconnects and logs in;
    # then it returns: the new connection keeps reading and writing, nothing is left open after stop()
    {'kind': 'directed-held-destr-reconnect', 'cfg': _base_cfg(),
     'ops': [['start'], ['login'], ['populate'], ['lossheld', 'read_error', 'destr'], ['tick', 22], ['release'],
             ['exec'], ['populate'], ['tick', 4]] + END},
    {'kind': 'directed-held-closed-reconnect', 'cfg': _base_cfg(),
     'ops': [['start'], ['login'], ['lossheld', 'read_error', 'closed'], ['tick', 22], ['exec'], ['release'],
             ['exec'], ['populate'], ['tick', 30]] + END},
    {'kind': 'directed-held-timeout-reconnect', 'cfg': _base_cfg(),
     'ops': [['start'], ['login'], ['lossheld', 'timeout', 'destr'], ['tick', 22], ['release'], ['populate'],
             ['exec']] + END},
    {'kind': 'directed-held-write-error-reconnect', 'cfg': _base_cfg(),
     'ops': [['start'], ['login'], ['lossheld', 'write_error', 'closed'], ['tick', 22], ['release'], ['populate'],
             ['exec']] + END},
    # the application reconnects while its own listener is suspended (EOF / requested: the watchdog is stopped)
    {'kind': 'directed-held-eof-app-reconnect', 'cfg': _base_cfg(),
     'ops': [['start'], ['login'], ['lossheld', 'eof', 'closed'], ['tick', 4], ['connect'], ['login'], ['release'],
             ['populate'], ['exec']] + END},
    {'kind': 'directed-held-requested-app-reconnect', 'cfg': _base_cfg(reconnect=False),
     'ops': [['start'], ['login'], ['lossheld', 'requested', 'destr'], ['connect'], ['login'], ['release'],
             ['populate'], ['exec']] + END},
    # stop() while the listener is suspended (the stale reader waits in the application's code), then it returns
    {'kind': 'directed-held-stop-release', 'cfg': _base_cfg(),
     'ops': [['start'], ['login'], ['lossheld', 'read_error', 'destr'], ['tick', 4], ['stop'], ['release'],
             ['tick', HOUR_TICKS]]},
    {'kind': 'directed-held-reconnect-stop-release', 'cfg': _base_cfg(),
     'ops': [['start'], ['login'], ['lossheld', 'read_error', 'closed'], ['tick', 22], ['stop'], ['release'],
             ['tick', HOUR_TICKS]]},
    # two losses in a row, both listeners suspended
    {'kind': 'directed-held-twice', 'cfg': _base_cfg(),
     'ops': [['start'], ['login'], ['lossheld', 'read_error', 'destr'], ['tick', 22], ['lossheld', 'eof', 'closed'],
             ['connect'], ['login'], ['release'], ['populate'], ['exec']] + END},
    # a manual reconnect after a requested disconnect announces everything again
    {'kind': 'directed-app-reconnect', 'cfg': _base_cfg(reconnect=False),
     'ops': [['start'], ['login'], ['populate'], ['loss', 'requested'], ['tick', 30], ['connect'], ['login'],
             ['exec'], ['srvup', False], ['loss', 'eof'], ['connect'], ['tick', 4]] + END},
] + [
    # the CLOSED listener of the application reconnects and logs in inside the event
    {'kind': f'directed-lossrec-{r}', 'cfg': _base_cfg(reconnect=rec),
     'ops': [['start'], ['login'], ['populate'], ['lossrec', r], ['exec'], ['populate'], ['tick', 30], ['exec']] + END}
    for r in REASONS for rec in (False, True)
]


# ---- round 5: logins that happen with distributed state surviving from before (a parent, children)
def _dist_cases() -> list[dict]:
    """The position in the distributed network is a matter of PEER connections: it survives a loss of the server
    connection.  Every later login — the watchdog's, a manual one, one made inside the CLOSED event — must announce
    the position the client has THEN."""
    out = []
    adopt = [['start'], ['login'], ['populate'], ['parent', 'par0', 3, 'rootuser']]
    # an unrequested loss with each reason, the watchdog logs in again; then the parent goes away
    for r in ('read_error', 'write_error', 'timeout', 'unknown'):
        out.append({'kind': f'dist-relogin-{r}', 'cfg': _base_cfg(),
                    'ops': adopt + [['child'], ['loss', r], ['tick', 22], ['exec'], ['ploss'], ['tick', 4]] + END})
    # no reconnect after EOF / a requested disconnect: the application connects and logs in itself
    for r in ('eof', 'requested'):
        out.append({'kind': f'dist-manual-relogin-{r}', 'cfg': _base_cfg(reconnect=(r == 'eof')),
                    'ops': adopt + [['loss', r], ['tick', 30], ['connect'], ['login'], ['exec'], ['plevel', 6]] + END})
    # the places a parent can announce: root of its own branch (level 0), a branch whose root is the client itself
    for lvl, root, tag in ((0, 'x', 'level0'), (2, 'me', 'own-root'), (7, 'other', 'deep')):
        out.append({'kind': f'dist-relogin-{tag}', 'cfg': _base_cfg(),
                    'ops': [['start'], ['login'], ['parent', 'par0', lvl, root], ['loss', 'read_error'], ['tick', 22],
                            ['populate'], ['loss', 'timeout'], ['tick', 22]] + END})
    # the parent moves / goes away / is replaced while there is no session: nothing can be sent then
    out.append({'kind': 'dist-parent-moves-without-session', 'cfg': _base_cfg(),
                'ops': adopt + [['loss', 'read_error'], ['plevel', 5], ['proot', 'other'], ['tick', 22], ['exec']] + END})
    out.append({'kind': 'dist-parent-lost-without-session', 'cfg': _base_cfg(),
                'ops': adopt + [['child'], ['loss', 'write_error'], ['ploss'], ['tick', 22], ['pp'],
                                ['parent', 'par1', 1, 'other'], ['loss', 'unknown'], ['tick', 22]] + END})
    out.append({'kind': 'dist-parent-becomes-root-without-session', 'cfg': _base_cfg(reconnect=False),
                'ops': adopt + [['loss', 'requested'], ['plevel', 0], ['connect'], ['login'], ['proot', 'me'],
                                ['loss', 'requested'], ['connect'], ['login']] + END})
    # children only; no parent possible (search_for_parent off); no listening port for children
    out.append({'kind': 'dist-children-only', 'cfg': _base_cfg(),
                'ops': [['start'], ['child'], ['login'], ['child'], ['child'], ['loss', 'read_error'], ['closs'],
                        ['tick', 22], ['child']] + END})
    out.append({'kind': 'dist-no-parent-search', 'cfg': _base_cfg(sfp=False),
                'ops': [['start'], ['login'], ['parent', 'par0', 3, 'rootuser'], ['child'], ['loss', 'read_error'],
                        ['tick', 22]] + END})
    out.append({'kind': 'dist-no-clear-port', 'cfg': _base_cfg(clear=0, mode='any'),
                'ops': [['start'], ['login'], ['child'], ['parent', 'par0', 1, 'rootuser'], ['loss', 'timeout'],
                        ['tick', 22]] + END})
    # pending potential-parent connects are given up when a parent is adopted (both connect modes)
    for race in (False, True):
        out.append({'kind': 'dist-adopt-cancels-candidates' + ('-race' if race else ''), 'cfg': _base_cfg(race=race),
                    'ops': [['start'], ['login'], ['pp'], ['pp'], ['sr'], ['tick', 2], ['parent', 'par0', 3, 'rootuser'],
                            ['tick', 4], ['loss', 'read_error'], ['tick', 22], ['pp'], ['tick', 2]] + END})
    # the CLOSED listener of the application reconnects and logs in inside the event; a suspended listener
    for r in ('read_error', 'requested', 'timeout'):
        out.append({'kind': f'dist-lossrec-{r}', 'cfg': _base_cfg(reconnect=False),
                    'ops': adopt + [['child'], ['lossrec', r], ['exec'], ['plevel', 1], ['tick', 30]] + END})
    out.append({'kind': 'dist-held-relogin', 'cfg': _base_cfg(),
                'ops': adopt + [['lossheld', 'read_error', 'destr'], ['plevel', 4], ['tick', 22], ['release'],
                                ['exec'], ['ploss']] + END})
    # login rejected / garbled / answered by EOF first, then accepted: still the surviving parent
    out.append({'kind': 'dist-relogin-after-rejected', 'cfg': _base_cfg(reconnect=False),
                'ops': adopt + [['loss', 'requested'], ['connect'], ['srvreply', 'rejected'], ['login'],
                                ['srvreply', 'garbled'], ['login'], ['srvreply', 'accepted'], ['login'], ['exec']] + END})
    # stop() with a parent and children: every peer connection is closed, nothing is left
    out.append({'kind': 'dist-stop-with-peers', 'cfg': _base_cfg(),
                'ops': adopt + [['child'], ['child'], ['tick', 2], ['stop'], ['ploss'], ['closs'], ['child'],
                                ['tick', HOUR_TICKS]]})
    out.append({'kind': 'dist-stop-with-peers-no-session', 'cfg': _base_cfg(),
                'ops': adopt + [['child'], ['loss', 'read_error'], ['tick', 4]] + END})
    # the application adds files and scans again — with a session (reported at once), without one (nothing can be
    # reported): every later login reports the index as it is then; also without a scan at start()
    for kw, tag in (({}, ''), ({'scan': False}, '-no-scan-at-start'), ({'fpd': 0}, '-empty-dirs'), ({'ndirs': 2}, '-two-dirs')):
        out.append({'kind': 'index-rescan-relogin' + tag, 'cfg': _base_cfg(**kw),
                    'ops': [['start'], ['login'], ['rescan', 2], ['loss', 'read_error'], ['tick', 22], ['exec'],
                            ['loss', 'timeout'], ['rescan', 3], ['tick', 22], ['loss', 'requested'], ['rescan', 5],
                            ['connect'], ['login']] + END})
    out.append({'kind': 'index-rescan-before-first-login', 'cfg': _base_cfg(reconnect=False),
                'ops': [['start'], ['rescan', 1], ['login'], ['loss', 'requested'], ['connect'], ['login']] + END})
    # the keep-alive (5 min) and the peers' read timeouts (60 s) with a talking parent
    out.append({'kind': 'dist-long-idle', 'cfg': _base_cfg(),
                'ops': adopt + [['child'], ['tick', 601], ['loss', 'read_error'], ['tick', 200], ['exec']] + END})
    return out


def _dist_pre(reconnect_by: str) -> list:
    """history before a re-login with a surviving parent and a child"""
    pre = [['start'], ['login'], ['parent', 'par0', 3, 'rootuser'], ['child']]
    if reconnect_by == 'app':
        return pre + [['loss', 'requested'], ['connect']]
    return pre + [['srvreply', 'rejected'], ['loss', 'read_error'], ['tick', 22], ['srvreply', 'accepted']]


def _glue(tier: str) -> list[dict]:
    """Monitor-only families (runtime glue the model does not express)."""
    out = []
    # the loss is noticed by a write of a task of the library that the CLOSING listeners cancel: the keep-alive
    # (5 min after CONNECTED) or the wishlist job; the transport still there / already gone
    for gone in (0, 1):
        for rec in (True, False):
            cfg = _base_cfg(reconnect=rec)
            out.append({'kind': f'glue-ping-write-fails-{gone}', 'cfg': cfg, 'model': False,
                        'ops': [['start'], ['login'], ['populate'], ['breakwrites', gone], ['tick', 601], ['exec'],
                                ['tick', 24], ['exec'], ['populate']] + END})
            out.append({'kind': f'glue-wishlist-write-fails-{gone}', 'cfg': cfg, 'model': False,
                        'ops': [['start'], ['login'], ['populate'], ['breakwrites', gone], ['wl'], ['exec'],
                                ['tick', 24], ['exec'], ['populate']] + END})
        out.append({'kind': f'glue-ping-write-fails-{gone}-nofriends', 'cfg': _base_cfg(friends=[]), 'model': False,
                    'ops': [['start'], ['login'], ['populate'], ['breakwrites', gone], ['tick', 601], ['exec'],
                            ['tick', 24], ['exec']] + END})
        out.append({'kind': f'glue-ping-write-fails-{gone}-stop', 'cfg': _base_cfg(), 'model': False,
                    'ops': [['start'], ['login'], ['breakwrites', gone], ['tick', 601], ['tick', 4]] + END})
    # established peer connections (0..4, incoming) at stop(), with and without a session / after a loss
    for n in (1, 2, 3, 4):
        out.append({'kind': f'glue-peers-{n}-stop', 'cfg': _base_cfg(), 'model': False,
                    'ops': [['start'], ['login'], ['peerin', n], ['tick', 2]] + END})
    out.append({'kind': 'glue-peers-no-session-stop', 'cfg': _base_cfg(reconnect=False), 'model': False,
                'ops': [['start'], ['peerin', 3]] + END})
    out.append({'kind': 'glue-peers-after-loss-stop', 'cfg': _base_cfg(), 'model': False,
                'ops': [['start'], ['login'], ['peerin', 2], ['loss', 'read_error'], ['peerin', 2], ['tick', 4]] + END})
    out.append({'kind': 'glue-peers-in-burst-stop', 'cfg': _base_cfg(), 'model': False,
                'ops': [['start'], ['peerin', 3], ['loginat', 5, 'stop'], ['tick', HOUR_TICKS]]})
    # a slow SessionInitialized listener of the application: the connection is lost and re-established (watchdog /
    # application) before login() resumes
    slow = [
        [['loginslow'], ['loss', 'timeout'], ['tick', 22], ['release'], ['populate'], ['exec'], ['tick', 30], ['exec']],
        [['loginslow'], ['loss', 'write_error'], ['tick', 22], ['exec'], ['release'], ['populate'], ['exec']],
        [['loginslow'], ['loss', 'requested'], ['connect'], ['login'], ['release'], ['populate'], ['exec'], ['tick', 4]],
        [['loginslow'], ['populate'], ['release'], ['populate'], ['exec'], ['tick', 4]],
        [['loginslow'], ['loss', 'unknown'], ['release'], ['tick', 22], ['populate'], ['exec']],
        [['loginslow'], ['loss', 'timeout'], ['tick', 22], ['stop'], ['release'], ['tick', HOUR_TICKS]],
        [['loginslow'], ['stop'], ['release'], ['tick', HOUR_TICKS]],
    ]
    for i, mid in enumerate(slow):
        ops = [['start']] + mid
        if not any(_is_stop(o) for o in ops):
            ops = ops + END
        out.append({'kind': f'glue-slow-login-{i}', 'cfg': _base_cfg(), 'model': False, 'ops': ops})
    return out


def _sweeps(tier: str) -> list[dict]:
    out = _glue(tier) + _break_sweep(_base_cfg(), EVENTS, 'fallback')
    # a RE-login with a surviving parent and a child, interrupted at every position
    out += _break_sweep(_base_cfg(reconnect=False), ['timeout', 'reset', 'stop'] if tier == 'quick' else EVENTS,
                        'relogin-parent', pre=_dist_pre('app'))
    out += _break_sweep(_base_cfg(race=True, reconnect=False), ['stop', 'requested'], 'race-mode')
    out += _race_sweep(_base_cfg(reconnect=False), ['stop'], range(0, 46), 'natural')
    out += _race_sweep(_base_cfg(), ['timeout'], range(0, 46), 'natural')
    out += _race_sweep(_base_cfg(), ['requested', 'reset'], range(0, 46, 3), 'natural')
    if tier != 'quick':
        small = _base_cfg(friends=[], liked=[], hated=[], favs=[], wishlist=0, reconnect=False)
        big = _base_cfg(friends=['f1', 'f2', 'f3', 'me'], liked=['rock', 'jazz'], hated=['pop', 'noise'], autojoin=False)
        out += _break_sweep(small, EVENTS, 'small') + _break_sweep(big, EVENTS, 'big')
        out += _break_sweep(_base_cfg(race=True), EVENTS, 'race-mode-full')
        out += _race_sweep(big, EVENTS, range(0, 60), 'natural-big')
        out += _race_sweep(_base_cfg(race=True), ['stop', 'requested', 'eof', 'unknown'], range(0, 46), 'natural-race-mode')
        out += _break_sweep(_base_cfg(), EVENTS, 'relogin-parent-after-rejected', pre=_dist_pre('watchdog'))
    return out


def _eval_case(case):
    try:
        return _run_impl(case)
    except Exception as e:      # the harness itself failed: surface it
        import traceback
        return {'lines': [], 'extras': [], 'harness_error': f'{type(e).__name__}: {e}',
                'tb': traceback.format_exc()[-2500:]}


class C16(Property):
    id = 'C16'
    props_module = 'AioslskVerif.Props.C16'
    driver_module = 'AioslskVerif.Driver.C16'
    rule = ('full SoulSeekClient + scripted server on FakeNet under SimLoop; settings grid (0..2 listening ports incl. '
            'bind failures and the three error modes, 0..4 friends incl. the own name, 0..2 liked / hated interests, '
            '0..2 favourite rooms, auto_join, invites, reconnect.auto, search_for_parent, request timers, 0..2 wishlist '
            'entries, 0..2 shared directories x 0..3 files, scan on start / slow scan, peer.connect_mode fallback / race) x '
            'scripts of up to 28 operations '
            '(login accepted / rejected / garbled / EOF, write failure at every burst frame, loss with each close '
            'reason before login / idle / with searches, wishlist, potential-parent and search-reply connects (incl. '
            'their race children) pending, server down / '
            'up, waits around the reconnect delay, stop() at each point + 1 h of virtual time), derived from '
            'VERIF_SEED; round 3: stop() / requested disconnect / disconnect(TIMEOUT|UNKNOWN) / server EOF / server '
            'reset at EVERY suspension point of login() — before the reply and in the drain of each awaited write of '
            'the burst (gated sockets; full sweep over all positions x 6 events, both connect modes) — and the same '
            'events k = 0..45 loop iterations after login() was called without any gate (natural asyncio schedules, '
            'monitor only); losses during which a CLOSED / SessionDestroyed listener of the application stays '
            'suspended while the watchdog ticks and reconnects, the application reconnects (connect_server + login), '
            'commands and stop() are issued, then the listener returns; CLOSED listeners that reconnect and log in '
            'inside the event, each close reason; monitor-only glue families: the loss noticed by a write of the '
            'keep-alive (5 min) / the wishlist job on a transport that is still open / already gone (wait_closed() does '
            'not suspend), a slow SessionInitialized listener of the application with loss + reconnect before login() '
            'resumes, 1..4 established incoming peer connections at stop(); '
            'round 5: logins made with state that SURVIVES from before the login — a distributed parent adopted from '
            'a potential parent that accepts the connection (levels 0..9, roots other / the parent / the client '
            'itself), a parent that moves or goes away with and without a session, 0..5 children, the share index '
            'scanned again by the application — followed by every kind of re-login (watchdog after each unrequested '
            'reason, manual after EOF / requested, inside the CLOSED event, after rejected / garbled logins, with a '
            'suspended listener), a break sweep over every position of such a RE-login, stop() with peers; the burst '
            'of every login is judged against the position and the index the client has at that login; '
            'a case is non-trivial when a session was initialised AND (a loss other than by stop() '
            'occurred OR work was pending at stop() OR a login variant other than accepted was used OR a login was '
            'interrupted OR a listener was suspended OR a login was made with a distributed parent); distinct = '
            'distinct canonical case')
    assumptions = [
        'asyncio / CPython semantics are exercised, not modelled; FakeNet stands in for TCP (close feeds EOF to both '
        'readers, reset makes reads and writes fail), SimLoop for time',
        'peers are unreachable (the connect neither completes nor is refused before its timeout; in two directed '
        'cases the peer would accept 4 s later, after stop()); established peer connections only in the glue-peers '
        'family (incoming, type P, idle); UPnP disabled',
        'the scripted server answers every AddUser at once (no tracking retries) and sends nothing unsolicited',
        'a distributed peer (parent, child) that is alive sends something at least every 20 s (DistributedPing, which '
        'the library ignores): the 60 s read timeout of a silent peer connection is not part of the scenarios; a '
        'potential parent announces itself only after the connect attempt to it has been wrapped up (one '
        'quiescence later); at most 5 children (the limit before any GetUserStats answer); the server never '
        'answers GetUserStats',
        'close reasons TIMEOUT and UNKNOWN are injected by calling ServerConnection.disconnect(reason), the call '
        'DataConnection._read/_send make on that path; EOF, READ_ERROR, WRITE_ERROR, REQUESTED, CONNECT_FAILED arise '
        'from the fake network',
        'at most one WishlistInterval per scenario (a second one kills the server reader: C02 finding, fix '
        'proposed there)',
        'a gated drain that is released after the connection was closed cleanly returns normally (asyncio wakes '
        'drain waiters with a result on connection_lost(None)) and raises after a reset; which frames of an '
        'interrupted burst reach the server is not compared (the writes of the tracking tasks interleave with the '
        "listeners'), nor is the name (WRITE_ERROR / READ_ERROR) under which a server reset at the last write "
        'surfaces',
        'tasks that belong to a call of the application still in progress (login() and the sends it awaits) and '
        'library tasks suspended INSIDE a listener of the application are not counted against stop(); the latter '
        'must be gone once the listener has returned',
        'the application calls connect_server() only while the reconnect watchdog is not in its reconnect delay '
        '(a manual reconnect during the delay is followed by a second connect: side observation, candidate patch '
        'fixes/C16-watchdog-rechecks-after-delay.candidate.patch, outside the alphabet)',
    ]
    modelled = ('the SessionInitialized listeners of network, distributed, user, room, interest, shares managers (burst, '
                'in listener order); client.start/login/execute/stop, _on_connection_state_changed, '
                '_on_server_reconnected; Network.initialize / connect_listening_ports (error modes) / disconnect / '
                '_cancel_all_tasks / watchdog job (0.5 s ticks, reconnect delay) / CLOSING+CLOSED listeners of all '
                'managers; login() interrupted at any of its suspension points by a write failure / a close from another '
                'task / stop() / a server EOF (Op.loginBreak), losses with a suspended application listener and its '
                'return (Op.lossHeld / Op.release), connect_server() by the application (Op.connect); '
                'life of every library task by spawn site (inventory tied to an ast scan of create_task / '
                'BackgroundTask / Timer sites, of client.services and of the cancel calls on the shutdown paths). '
                'Exercised but not modelled: transfers (no transfer in the scenarios), peer connections other than a '
                'pending potential-parent / search-reply connect to an unreachable peer (both connect modes), UPnP, tracking '
                'retries. Round 5, modelled: the distributed parent (name, announced root and level) and the number of '
                'children as state that a loss of the server connection leaves alone and stop() clears; '
                'DistributedNetwork._on_potential_parents / _check_if_new_parent / _set_parent (cancels the pending '
                'candidates) / _on_distributed_branch_level / _on_distributed_branch_root / _unset_parent / '
                '_check_if_new_child / _notify_server_of_parent (only with a session); SharesManager.scan -> '
                'report_shares; ghost `told` = what the current server connection was told last')

    def regenerate(self):
        from translate import task_sites
        return [task_sites.generate(common.REPO, common.LEAN / 'AioslskVerif/Generated/TaskSites.lean')]

    def correspondence(self, seed, tier, model_ok, widen=1):
        res = KResult()
        rng = random.Random(f'C16-{seed}')
        n = (600 if tier == 'quick' else 5000) * widen
        cases = (list(DIRECTED) + [WITNESS_RESIDUAL] + list(HELD) + _dist_cases() + _sweeps(tier)
                 + [_gen_case(rng) for _ in range(n)])
        impl = common.parallel_map(_eval_case, cases, chunksize=4)
        model = None
        if model_ok:
            lines, spans = [], []
            for c in cases:
                if not c.get('model', True):            # monitor-only family (natural schedules)
                    spans.append(None)
                    continue
                ls = _model_lines(c)
                spans.append((len(lines) + 1, len(ls) - 1))       # skip the answer to `cfg`
                lines += ls
            out = common.run_driver(self.driver_file, lines)
            model = [None if sp is None else out[sp[0]:sp[0] + sp[1]] for sp in spans]
        else:
            res.model_available = False
        for i, c in enumerate(cases):
            res.evaluations += 1
            io = impl[i]
            if io.get('harness_error'):
                raise RuntimeError(f'C16 harness error: {io["harness_error"]}\n{io.get("tb")}\ncase={c}')
            res.count('kind:' + c['kind'])
            rows = [_parse(l) for l in io['lines']]
            feats = set()
            stopped = False
            for op, row in zip(c['ops'], rows):
                res.count('op:' + op[0] + (':invalid' if row['inv'] == '1' else ''))
                if row['inv'] == '1':
                    continue
                if op[0] == 'stop':
                    stopped = True
                if int(row['init']):
                    feats.add('session')
                    if row.get('par', '-') != '-' and row['s'] == '1':
                        feats.add('parent-at-login')
                        res.count('login-with-parent:' + ('watchdog' if op[0] == 'tick' else op[0]))
                    if int(row.get('kids', '0')) and row['s'] == '1':
                        res.count('login-with-children')
                if op[0] in ('loss', 'lossheld', 'lossrec'):
                    feats.add('loss')
                    res.count('loss:' + op[1])
                if op[0] in ('loginat', 'loginrace'):
                    feats.add('burst-break')
                    res.count(f'{op[0]}:{op[2]}' + (':pre' if op[1] == 'pre' else ''))
                    if row['closed'] and int(row['init']):
                        res.count('burst-break:session-destroyed-inside-login')
                if op[0] == 'release':
                    feats.add('held-listener')
                    if any(int(r2['att']) for r2 in rows[:rows.index(row)] ):
                        res.count('release-after-reconnect')
                for r in row['closed'].split(','):
                    if r:
                        res.count('closed:' + r)
                        if not stopped and op[0] != 'stop':
                            feats.add('loss')
                if op[0] == 'logincut' and 'write_error' in row['closed']:
                    feats.add('burst-cut')
                    res.count('burst-cut')
                if op[0] == 'tick' and int(row['att']):
                    feats.add('reconnect')
                    res.count('reconnect-attempt')
                if op[0] == 'login' and row['res'] in ('auth', 'err'):
                    feats.add('login-variant')
                    res.count('login:' + row['res'])
                if op[0] == 'stop':
                    before = rows[c['ops'].index(op) - 1] if c['ops'].index(op) else None
                    if before is not None and any(t in before['tasks'] for t in
                                                  ('timer', 'potential-parent', 'search-reply', 'connect', 'watchdog', 'scan', 'wishlist')):
                        feats.add('pending-at-stop')
                        res.count('pending-work-at-stop')
                    if before is not None:
                        res.count('stop-in-state:' + before['c'] + ('+session' if before['s'] == '1' else ''))
            for f in feats:
                res.count('feature:' + f)
            if 'session' in feats and feats & {'loss', 'pending-at-stop', 'login-variant', 'burst-cut', 'burst-break',
                                               'held-listener', 'parent-at-login'}:    # (rule text: "... OR a
                # login was made with a distributed parent")
                res.nontrivial_keys.add(common.sha([c['cfg'], c['ops']]))
            if model is not None and model[i] is not None:
                res.traces_validated += 1
                a, b = _canon(c, model[i]), _canon(c, io['lines'])
                if a != b:
                    k = next((j for j, (x, y) in enumerate(zip(a, b)) if x != y), min(len(a), len(b)))
                    res.disagreements.append(Disagreement(
                        c, b[k] if k < len(b) else None, a[k] if k < len(a) else None,
                        f'op #{k}: {c["ops"][k] if k < len(c["ops"]) else ""}'))
            res.violations += _monitor(c, io)
            if len(res.samples) < 3 and c['kind'] in ('directed-reconnect', 'directed-watchdog-stop', 'directed-sr-stop-race'):
                res.samples.append({'case': c, 'impl': io['lines']})
        return res

    def replay(self, case):
        io = _eval_case(case)
        if io.get('harness_error'):
            raise RuntimeError(io['harness_error'] + '\n' + io.get('tb', ''))
        return _monitor(case, io)

    def known_witnesses(self):
        return []       # the former known finding is repaired; its witness is a directed case (WITNESS_RESIDUAL)


PROPERTY = C16()
