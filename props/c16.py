"""C16 — session life cycle: login advertises settings, loss resets, stop is final.

Correspondence K_C16 + monitor (DESIGN.md, C16).

The unmodified `SoulSeekClient` runs on `vlib.simloop.SimLoop` (virtual time) and `vlib.fakenet.FakeNet`
(in-memory sockets) against a scripted server built on the repo's own message classes.  A case is a
configuration (settings grid + scenario switches) and a script of operations; after every operation the
harness lets the loop quiesce and records what happened during the operation (connect attempts, CONNECTED /
CLOSED(reason) events of the server connection, Login requests and burst frames that reached the server,
SessionInitialized / SessionDestroyed events, results of login()/execute()/start()) and the state afterwards
(connection state, session, pending library tasks mapped to their spawn site, tracked users, whether users /
rooms / server-sent distributed parameters are stored, open sockets).  The Lean driver executes the same
script with `Session.step`; the canonical lines must be equal.

case = {'cfg': {...}, 'ops': [[op, arg?]...], 'kind': str}
  ops: start | login | logincut j | exec | populate | search | wl | pp | sr | loss <reason> | tick n | srvup b
       | srvreply accepted|rejected|garbled|eof | stop          (tick = 0.5 s of virtual time)
An operation that is not applicable in the current state (e.g. `populate` without a reader) is skipped on
both sides (`inv=1`); applicability is the same predicate on both sides.

Time: operation i is followed/executed with a tiny offset 2^-(12+i) so that no two of {operation instants,
library timers} ever coincide; the model's convention (operations just after a tick boundary, timers just
before) then holds exactly.
"""
from __future__ import annotations

import asyncio
import logging
import os
import random
import shutil
import struct
import tempfile
from typing import Any, Optional

from vlib import common, simloop, fakenet
from vlib.common import KResult, Violation, Disagreement, Property

SERVER_PORT = 2416
PP_ADDR = ('9.9.9.9', 1234)
REQUEST_TIMEOUT = 100000          # search request timers never expire inside a scenario
WISHLIST_INTERVAL = 100000
HOUR_TICKS = 7200
KNOWN_RESIDUAL = 'C16-residual-tracking-after-write-failure-in-burst'

BURST_KINDS = ('SetListenPort', 'BranchLevel', 'BranchRoot', 'ToggleParentSearch', 'CheckPrivileges', 'SetStatus',
               'AddUser', 'TogglePrivateRoomInvites', 'JoinRoom', 'AddInterest', 'AddHatedInterest',
               'SharedFoldersFiles')


# --------------------------------------------------------------------------------------------
# canonical text shared by both sides
# --------------------------------------------------------------------------------------------

def _frame_str(msg) -> Optional[str]:
    k = type(msg).__qualname__.split('.')[0]
    if k == 'SetListenPort':
        return f'SetListenPort({msg.port},{msg.obfuscated_port_amount or 0},{msg.obfuscated_port or 0})'
    if k == 'BranchLevel':
        return f'BranchLevel({msg.level})'
    if k == 'BranchRoot':
        return f'BranchRoot({msg.username})'
    if k == 'ToggleParentSearch':
        return f'ToggleParentSearch({int(bool(msg.enable))})'
    if k == 'CheckPrivileges':
        return 'CheckPrivileges'
    if k == 'SetStatus':
        return f'SetStatus({msg.status})'
    if k == 'AddUser':
        return f'AddUser({msg.username})'
    if k == 'TogglePrivateRoomInvites':
        return f'ToggleInvites({int(bool(msg.enable))})'
    if k == 'JoinRoom':
        return f'JoinRoom({msg.room})'
    if k == 'AddInterest':
        return f'AddInterest({msg.interest})'
    if k == 'AddHatedInterest':
        return f'AddHated({msg.hated_interest})'
    if k == 'SharedFoldersFiles':
        return f'Shared({msg.shared_folder_count},{msg.shared_file_count})'
    return None


def _expected_stats(cfg: dict) -> tuple[int, int]:
    if not cfg['scan'] or cfg['slowscan'] or cfg['fpd'] == 0:
        return 0, 0
    return cfg['ndirs'], cfg['ndirs'] * cfg['fpd']


def _cfg_line(cfg: dict) -> str:
    def lst(x):
        return ','.join(x) if x else '-'
    d, f = _expected_stats(cfg)
    return ('cfg user={user} creds=1 friends={friends} liked={liked} hated={hated} favs={favs} autojoin={autojoin} '
            'invites={invites} reconnect={reconnect} sfp={sfp} logconn={logconn} reqtimeout={reqtimeout} '
            'wishlist={wishlist} scan={scan} slowscan={slowscan} race={race} clear={clear} obf={obf} clearfail={clearfail} '
            'obffail={obffail} mode={mode} ndirs={ndirs} dirs={d} files={f}').format(
        user=cfg['user'], friends=lst(cfg['friends']), liked=lst(cfg['liked']), hated=lst(cfg['hated']),
        favs=lst(cfg['favs']), autojoin=int(cfg['autojoin']), invites=int(cfg['invites']),
        reconnect=int(cfg['reconnect']), sfp=int(cfg['sfp']), logconn=int(cfg['logconn']),
        reqtimeout=int(cfg['reqtimeout']), wishlist=cfg['wishlist'], scan=int(cfg['scan']),
        slowscan=int(cfg['slowscan']), race=int(cfg.get('race', False)), clear=cfg['clear'], obf=cfg['obf'], clearfail=int(cfg['clearfail']),
        obffail=int(cfg['obffail']), mode=cfg['mode'], ndirs=cfg['ndirs'], d=d, f=f)


def _model_lines(case: dict) -> list[str]:
    lines = [_cfg_line(case['cfg'])]
    for op in case['ops']:
        k = op[0]
        if k in ('logincut', 'loss', 'tick', 'srvreply'):
            lines.append(f'{k} {op[1]}')
        elif k == 'srvup':
            lines.append(f'srvup {int(op[1])}')
        else:
            lines.append(k)
    return lines


# --------------------------------------------------------------------------------------------
# implementation side
# --------------------------------------------------------------------------------------------

class _Server:
    """Scripted server: records every decodable request, answers Login (per mode) and AddUser."""

    def __init__(self, m):
        self.m = m
        self.mode = 'accepted'
        self.received: list = []
        self.writers: list = []

    async def handler(self, reader, writer):
        m = self.m
        self.writers.append(writer)
        while True:
            try:
                hdr = await reader.readexactly(4)
                (n,) = struct.unpack('<I', hdr)
                body = await reader.readexactly(n)
            except (asyncio.IncompleteReadError, ConnectionError):
                return
            try:
                msg = m.ServerMessage.deserialize_request(hdr + body)
            except Exception:
                self.received.append(None)
                continue
            self.received.append(msg)
            if writer.is_closing():
                continue
            if isinstance(msg, m.Login.Request):
                if self.mode == 'accepted':
                    writer.write(m.Login.Response(success=True, greeting='hello', ip='1.2.3.4', md5hash='0' * 32,
                                                  privileged=False).serialize())
                elif self.mode == 'rejected':
                    writer.write(m.Login.Response(success=False, reason='INVALIDPASS').serialize())
                elif self.mode == 'garbled':
                    writer.write(struct.pack('<II', 4, 1))      # a Login reply without a body
                else:                                           # 'eof': close instead of answering
                    writer.close()
            elif isinstance(msg, m.GetPeerAddress.Request):
                # every peer is unreachable: its address is an endpoint that never completes the connect
                writer.write(m.GetPeerAddress.Response(username=msg.username, ip=PP_ADDR[0], port=PP_ADDR[1],
                                                       obfuscated_port_amount=0, obfuscated_port=0).serialize())
            elif isinstance(msg, m.AddUser.Request):
                writer.write(m.AddUser.Response(username=msg.username, exists=True, status=2,
                                                user_stats=m.UserStats(1, 1, 1, 1), country_code='BE').serialize())

    def send(self, msg):
        self.writers[-1].write(msg.serialize())


_TASK_NAMES = {
    'server-connection-watchdog-task': 'watchdog', 'server-ping-task': 'ping', 'user-management-task': 'user-mgmt',
    'transfer-management-task': 'transfer-mgmt', 'transfer-progress-task': 'transfer-progress',
    'log-connections-task': 'log-connections', 'upnp-task': 'upnp', 'wishlist-task': 'wishlist',
}
_TASK_PREFIXES = [
    ('potential-parent-', 'potential-parent'), ('direct-connect-', 'direct-connect'),
    ('indirect-connect-', 'indirect-connect'), ('connect-to-peer-', 'connect-to-peer'),
    ('search-reply-', 'search-reply'), ('queue-message-task-', 'queued-message'),
    ('queue-remotely-', 'queue-remotely'), ('initialize-upload-', 'init-upload'),
    ('initialize-download-', 'init-download'),
]
_TASK_CORO = {
    'DataConnection._message_reader_loop': 'reader', 'UserTrackingManager._tracking_task': 'tracking',
    'UserTrackingManager._request_retry': 'track-retry', 'SharesManager.scan': 'scan',
}


def _classify(task: asyncio.Task) -> Optional[str]:
    """Spawn site of a pending task; None for tasks of the harness."""
    coro = task.get_coro()
    qual = getattr(coro, '__qualname__', '?')
    if qual.startswith('_Server.') or qual.startswith('_run_impl'):
        return None
    name = task.get_name()
    if name in _TASK_NAMES:
        return _TASK_NAMES[name]
    for p, s in _TASK_PREFIXES:
        if name.startswith(p):
            return s
    if qual in _TASK_CORO:
        return _TASK_CORO[qual]
    if qual in ('SharesManager.scan_directory_files', 'SharesManager.scan_directory_file_attributes'):
        return 'scan-child'         # gather() child of the scan task, awaited inline by it
    if qual == 'Timer.runner':
        try:
            timer = coro.cr_frame.f_locals['self']
            req = timer.callback.args[0]
            return 'wishlist-timer' if req.search_type.name == 'WISHLIST' else 'search-timer'
        except Exception:
            return 'timer'
    return 'other:' + qual


def _run_impl(case: dict) -> dict:
    from aioslsk.client import SoulSeekClient
    from aioslsk.settings import Settings
    from aioslsk.protocol import messages as m
    from aioslsk.events import SessionInitializedEvent, SessionDestroyedEvent, ConnectionStateChangedEvent
    from aioslsk.network.connection import ServerConnection, ConnectionState, CloseReason
    from aioslsk.exceptions import AuthenticationError, InvalidSessionError
    from aioslsk.commands import GetUserStatusCommand

    cfg = case['cfg']
    tmp = tempfile.mkdtemp(prefix='c16-')
    dirs = []
    for i in range(cfg['ndirs']):
        d = os.path.join(tmp, f'share{i}')
        os.makedirs(d)
        for j in range(cfg['fpd']):
            with open(os.path.join(d, f'file{j}.txt'), 'wb') as fh:
                fh.write(b'x' * 10)
        dirs.append(d)
    prev_disable = logging.root.manager.disable
    logging.disable(logging.CRITICAL)

    async def main(loop):
        net = fakenet.FakeNet().install()
        srv = _Server(m)
        endpoint = fakenet.Endpoint('accept', srv.handler)
        net.endpoints[('srv', SERVER_PORT)] = endpoint
        # peers are unreachable: the connect never completes — or (directed cases, `peerdelay` ticks) it would
        # complete only after the scenario has called stop()
        if cfg.get('peerdelay'):
            net.endpoints[PP_ADDR] = fakenet.Endpoint('delay', None, delay=cfg['peerdelay'] * 0.5)
        else:
            net.endpoints[PP_ADDR] = fakenet.Endpoint('hang')
        if cfg['clearfail'] and cfg['clear']:
            net.bind_fail_ports.add(cfg['clear'])
        if cfg['obffail'] and cfg['obf']:
            net.bind_fail_ports.add(cfg['obf'])
        if cfg['slowscan']:
            loop.run_in_executor = lambda ex, fn, *a: loop.create_future()       # the scan never finishes
        settings = Settings(
            credentials={'username': cfg['user'], 'password': 'pw'},
            network={'server': {'hostname': 'srv', 'port': SERVER_PORT,
                                'reconnect': {'auto': cfg['reconnect'], 'timeout': 10}},
                     'listening': {'port': cfg['clear'], 'obfuscated_port': cfg['obf'], 'error_mode': cfg['mode']},
                     'upnp': {'enabled': False},
                     'peer': {'connect_mode': 'race' if cfg.get('race') else 'fallback'}},
            users={'friends': list(cfg['friends'])},
            interests={'liked': list(cfg['liked']), 'hated': list(cfg['hated'])},
            rooms={'favorites': list(cfg['favs']), 'auto_join': cfg['autojoin'],
                   'private_room_invites': cfg['invites']},
            searches={'send': {'request_timeout': REQUEST_TIMEOUT if cfg['reqtimeout'] else 0},
                      'wishlist': [{'query': f'wish{i}', 'enabled': True} for i in range(cfg['wishlist'])]},
            shares={'scan_on_start': cfg['scan'], 'directories': [{'path': d} for d in dirs], 'download': tmp},
            debug={'search_for_parent': cfg['sfp'], 'log_connection_count': cfg['logconn']},
        )
        client = SoulSeekClient(settings)
        ev = {'init': 0, 'destr': 0, 'conn': 0, 'closed': []}

        async def on_init(e):
            ev['init'] += 1

        async def on_destroyed(e):
            ev['destr'] += 1

        async def on_state(e):
            if isinstance(e.connection, ServerConnection):
                if e.state == ConnectionState.CONNECTED:
                    ev['conn'] += 1
                elif e.state == ConnectionState.CLOSED:
                    ev['closed'].append(e.close_reason.name.lower())

        client.events.register(SessionInitializedEvent, on_init)
        client.events.register(SessionDestroyedEvent, on_destroyed)
        client.events.register(ConnectionStateChangedEvent, on_state)
        keep = [on_init, on_destroyed, on_state]
        sconn = client.network.server_connection
        flags = {'started': False, 'stopped': False}
        marks = {'att': 0, 'recv': 0, 'init': 0, 'destr': 0, 'conn': 0, 'closed': 0, 'any_att': 0}
        me = asyncio.current_task()

        def reader_alive():
            t = sconn._reader_task
            return t is not None and not t.done()

        def pending_sites():
            out = []
            for t in asyncio.all_tasks():
                if t is me or t.done():
                    continue
                s = _classify(t)
                if s is not None:
                    out.append(s)
            if 'scan' in out:       # children live and die with the scan task
                out = [s for s in out if s != 'scan-child']
            return sorted(out)

        def snapshot(res='', exe='', fail=0, inv=0, tasks=None):
            srv_att = [a for a in net.attempts if a == ('srv', SERVER_PORT)]
            new_msgs = srv.received[marks['recv']:]
            frames = sorted(f for f in (_frame_str(x) for x in new_msgs if x is not None) if f is not None)
            logins = sum(1 for x in new_msgs if isinstance(x, m.Login.Request))
            dn = client.distributed_network
            params = any(v is not None for v in (dn.parent_min_speed, dn.parent_speed_ratio, dn.min_parents_in_cache,
                                                 dn.parent_inactivity_timeout, dn.distributed_alive_interval))
            line = ('att={att} conn={conn} closed={closed} login={login} init={init} destr={destr} res={res} '
                    'exec={exe} fail={fail} inv={inv} frames={frames} | c={c} s={s} tasks={tasks} tracked={tracked} '
                    'u={u} r={r} p={p} open={open}').format(
                att=len(srv_att) - marks['att'], conn=ev['conn'] - marks['conn'],
                closed=','.join(ev['closed'][marks['closed']:]), login=logins,
                init=ev['init'] - marks['init'], destr=ev['destr'] - marks['destr'], res=res, exe=exe, fail=fail,
                inv=inv, frames=';'.join(frames), c=sconn.state.name.lower().replace('uninitialized', 'uninit'),
                s=int(client.session is not None), tasks=','.join(pending_sites() if tasks is None else tasks),
                tracked=','.join(sorted(client.users._tracking_manager._tracked_users)),
                u=int(len(client.users._users) > 0 or len(client.users.privileged_users) > 0),
                r=int(len(client.rooms.rooms) > 0), p=int(params),
                open=net.open_sockets() + len(net.listeners))
            extra = {'any_att': len(net.attempts) - marks['any_att'], 'other_frames': len(new_msgs) - len(frames) - logins}
            marks.update(att=len(srv_att), recv=len(srv.received), init=ev['init'], destr=ev['destr'],
                         conn=ev['conn'], closed=len(ev['closed']), any_att=len(net.attempts))
            return line, extra

        lines, extras = [], []
        for i, op in enumerate(case['ops']):
            k = op[0]
            eps = 2.0 ** -(12 + min(i, 28))
            res, exe, fail, inv, tasks_at_return = '', '', 0, 0, None
            connected = sconn.state == ConnectionState.CONNECTED
            can_login = connected and client.session is None and not reader_alive() and not flags['stopped']
            if k == 'start':
                if flags['started']:
                    inv = 1
                else:
                    flags['started'] = True
                    try:
                        await client.start()
                    except Exception:
                        fail = 1
            elif k == 'login':
                if not can_login:
                    inv = 1
                else:
                    try:
                        await client.login()
                        res = 'ok'
                    except AuthenticationError:
                        res = 'auth'
                    except Exception:
                        res = 'err'
            elif k == 'logincut':
                if not can_login:
                    inv = 1
                else:
                    saved_mode, srv.mode = srv.mode, 'accepted'
                    w = sconn._writer
                    cnt = {'n': -1}

                    def on_write(data, w=w, cnt=cnt, j=op[1]):
                        cnt['n'] += 1
                        if cnt['n'] == j:
                            w.fail_after = len(w.sent)      # the next write hits a reset connection

                    w.on_write = on_write
                    try:
                        await client.login()
                        res = 'ok'
                    except AuthenticationError:
                        res = 'auth'
                    except Exception:
                        res = 'err'
                    await simloop.settle()
                    if not w._closed:
                        w.fail_after = None
                    w.on_write = None
                    srv.mode = saved_mode
            elif k == 'exec':
                try:
                    await client.execute(GetUserStatusCommand('someone'))
                    exe = 'sent'
                except InvalidSessionError:
                    exe = 'refused'
                except Exception as e:          # not refused, and the send failed
                    exe = 'error:' + type(e).__name__
            elif k in ('populate', 'wl', 'pp', 'sr'):
                if not reader_alive():
                    inv = 1
                elif k == 'populate':
                    srv.send(m.RoomList.Response(rooms=['room1'], rooms_user_count=[1], rooms_private_owned=[],
                                                 rooms_private_owned_user_count=[], rooms_private=[],
                                                 rooms_private_user_count=[], rooms_private_operated=[]))
                    srv.send(m.PrivilegedUsers.Response(users=['priv1']))
                    srv.send(m.ParentMinSpeed.Response(speed=1))
                    srv.send(m.ParentSpeedRatio.Response(ratio=50))
                    srv.send(m.MinParentsInCache.Response(amount=10))
                    srv.send(m.ParentInactivityTimeout.Response(timeout=300))
                    srv.send(m.DistributedAliveInterval.Response(interval=60))
                elif k == 'wl':
                    srv.send(m.WishlistInterval.Response(interval=WISHLIST_INTERVAL))
                elif k == 'sr':
                    srv.send(m.ServerSearchRequest.Response(distributed_code=3, unknown=0, username='asker',
                                                            ticket=4242, query='file0'))
                else:
                    srv.send(m.PotentialParents.Response(entries=[m.PotentialParent(username='ppuser', ip=PP_ADDR[0],
                                                                                    port=PP_ADDR[1])]))
            elif k == 'search':
                if not flags['started'] or flags['stopped'] or sconn.state == ConnectionState.UNINITIALIZED:
                    inv = 1
                else:
                    await client.searches.search('query')
            elif k == 'loss':
                r = op[1]
                if not connected or r == 'connect_failed' or (r in ('eof', 'read_error') and not reader_alive()):
                    inv = 1
                elif r == 'eof':
                    srv.writers[-1].close()
                elif r == 'read_error':
                    srv.writers[-1].reset()
                elif r == 'write_error':
                    w = sconn._writer
                    w.fail_after = len(w.sent)
                    try:
                        await client.network.send_server_messages(m.Ping.Request())
                    except Exception:
                        pass
                elif r == 'requested':
                    await client.network.disconnect_server()
                else:       # timeout / unknown: the call DataConnection._read/_send make on that path
                    await sconn.disconnect(CloseReason[r.upper()])
            elif k == 'tick':
                await asyncio.sleep(op[1] * 0.5 + eps)
            elif k == 'srvup':
                endpoint.behaviour = 'accept' if op[1] else 'refuse'
            elif k == 'srvreply':
                srv.mode = op[1]
            elif k == 'stop':
                if not flags['started'] or flags['stopped']:
                    inv = 1
                else:
                    flags['stopped'] = True
                    try:
                        await client.stop()
                    except BaseException as e:      # noqa  (RecursionError is what the unfixed code raises)
                        res = 'raised:' + type(e).__name__
                    tasks_at_return = pending_sites()
            else:
                raise ValueError(f'bad op {op!r}')
            await simloop.settle()
            line, extra = snapshot(res, exe, fail, inv, tasks_at_return)
            extra['tasks_settled'] = pending_sites()
            lines.append(line)
            extras.append(extra)
        keep.append(client)
        net.uninstall()
        return lines, extras

    try:
        (lines, extras), loop = simloop.run(main, wall_timeout=120.0)
        return {'lines': lines, 'extras': extras}
    finally:
        logging.disable(prev_disable)
        shutil.rmtree(tmp, ignore_errors=True)


# --------------------------------------------------------------------------------------------
# canonicalisation of the known-finding region
# --------------------------------------------------------------------------------------------

def _parse(line: str) -> dict:
    head, _, tail = line.partition(' | ')
    d = {}
    for part in (head + ' ' + tail).split(' '):
        k, _, v = part.partition('=')
        d[k] = v
    return d


def _burst_len(cfg: dict) -> int:
    n_track = 1 + len([f for f in cfg['friends'] if f != cfg['user']])
    return (1 + 3 + 2 + n_track + 1 + (len(cfg['favs']) if cfg['autojoin'] else 0)
            + len(cfg['liked']) + len(cfg['hated']) + 1)


def _mask_from(case: dict) -> Optional[int]:
    """Index of the first `logincut` that really cuts the burst (from there on, until `stop`, the names of the
    tracked users and the tracking / retry tasks depend on set iteration order and on retry timers)."""
    n = _burst_len(case['cfg'])
    for i, op in enumerate(case['ops']):
        if op[0] == 'logincut' and op[1] < n:
            return i
    return None


def _mask_line(line: str, level: int) -> str:
    """level 3: the cutting login itself (frames, tracked users, tracking tasks, stored users are not compared);
    level 2: until stop() (tracked users, tracking tasks, stored users); level 1: afterwards (stored users: user
    objects are stored weakly and die with the garbage collector)."""
    head, _, tail = line.partition(' | ')
    d = _parse(line)
    tasks = [t for t in d['tasks'].split(',') if t and t not in ('tracking', 'track-retry')]
    if level >= 3:
        head = ' '.join(p if not p.startswith('frames=') else 'frames=*' for p in head.split(' '))
    parts = []
    for p in tail.split(' '):
        if p.startswith('tasks=') and level >= 2:
            p = 'tasks=' + ','.join(tasks)
        elif p.startswith('tracked=') and level >= 2:
            p = 'tracked=*'
        elif p.startswith('u='):
            p = 'u=*'
        parts.append(p)
    return head + ' | ' + ' '.join(parts)


def _canon(case: dict, lines: list[str]) -> list[str]:
    k = _mask_from(case)
    if k is None:
        return list(lines)
    out = []
    stop_seen = False
    for i, (op, l) in enumerate(zip(case['ops'], lines)):
        if i < k:
            out.append(l)
            continue
        if op[0] == 'stop':
            stop_seen = True
        out.append(_mask_line(l, 3 if i == k else (1 if stop_seen else 2)))
    return out


# --------------------------------------------------------------------------------------------
# monitor: the property statement on the implementation trace (independent of the model)
# --------------------------------------------------------------------------------------------

def _expected_burst(cfg: dict) -> tuple[list[str], set[str]]:
    """(frames that must be there exactly once — AddUser excluded, allowed optional AddUser names)"""
    port = cfg['clear'] if cfg['clear'] and not cfg['clearfail'] else 0
    obf = cfg['obf'] if cfg['obf'] and not cfg['obffail'] else 0
    d, f = _expected_stats(cfg)
    want = [f'SetListenPort({port},{1 if obf else 0},{obf})', 'CheckPrivileges', 'SetStatus(2)', f'Shared({d},{f})',
            f"ToggleInvites({int(cfg['invites'])})", 'BranchLevel(0)', f"BranchRoot({cfg['user']})",
            f"ToggleParentSearch({int(cfg['sfp'])})"]
    want += [f'AddInterest({x})' for x in cfg['liked']] + [f'AddHated({x})' for x in cfg['hated']]
    if cfg['autojoin']:
        want += [f'JoinRoom({x})' for x in cfg['favs']]
    return want, {cfg['user']}


def _monitor(case: dict, impl: dict) -> list[Violation]:
    vs: list[Violation] = []
    cfg = case['cfg']
    ops = case['ops']
    rows = [_parse(l) for l in impl['lines']]
    extras = impl['extras']

    def add(sig, what, observed=None, required=None):
        vs.append(Violation(sig, what, case, observed=observed, required=required))

    session = False
    inits = destrs = 0
    stop_at = None
    # reconnect bookkeeping: after an unrequested loss, ticks seen and attempts seen
    pending_loss: Optional[dict] = None
    for i, (op, row, ex) in enumerate(zip(ops, rows, extras)):
        where = {'op_index': i, 'op': op, 'line': impl['lines'][i]}
        had_session = session
        n_init, n_destr = int(row['init']), int(row['destr'])
        closed = [r for r in row['closed'].split(',') if r]
        inits += n_init
        destrs += n_destr
        session = row['s'] == '1'
        inv = row['inv'] == '1'
        # ---- M3: a session is destroyed exactly once
        if inits - destrs != (1 if session else 0):
            add('C16-destroy-count', f'after op #{i} {op}: {inits} sessions initialised, {destrs} destroyed, session '
                f'{"present" if session else "absent"}', where, 'initialised - destroyed = 1 iff a session is present')
        if closed and (had_session or n_init) and n_destr != n_init + (1 if had_session else 0):
            add('C16-destroy-count', f'server connection closed ({closed}) during op #{i} {op} but {n_destr} '
                f'SessionDestroyedEvent(s) for {n_init + (1 if had_session else 0)} session(s)', where)
        if session and row['c'] != 'connected':
            add('C16-session-without-connection', f'after op #{i} {op} a session is present but the server connection '
                f'is {row["c"]}', where)
        # ---- M1: the burst
        if op[0] in ('login', 'tick', 'logincut') and n_init == 1 and session and not closed:
            want, optional = _expected_burst(cfg)
            got = [f for f in row['frames'].split(';') if f]
            add_users = sorted(f[8:-1] for f in got if f.startswith('AddUser('))
            rest = sorted(f for f in got if not f.startswith('AddUser('))
            if rest != sorted(want):
                missing = sorted(set(want) - set(rest))
                extra = sorted(set(rest) - set(want))
                kind = (missing + extra + ['multiplicity'])[0].split('(')[0]
                add(f'C16-burst-mismatch:{kind}', f'after login (op #{i}) the server was not told exactly what the '
                    f'settings say: missing {missing}, unexpected {extra}', sorted(rest), sorted(want))
            fr = sorted(set(cfg['friends']))
            if len(set(add_users)) != len(add_users) or not set(fr) <= set(add_users) or \
                    not set(add_users) <= set(fr) | optional:
                add('C16-burst-mismatch:AddUser', f'AddUser frames after login (op #{i}): {add_users}', add_users,
                    f'every friend once: {fr} (own name optional)')
        # ---- M2: commands are refused without a session
        if op[0] == 'exec':
            if not had_session and row['exec'] != 'refused':
                add('C16-exec-not-refused', f'execute() without a session was not refused (op #{i})', where)
            if had_session and row['exec'] != 'sent':
                add('C16-exec-refused-with-session', f'execute() with a session was refused (op #{i})', where)
        # ---- M4: loss resets the server-derived state
        if closed and stop_at is None:
            left = [n for n, v in (('users', row['u']), ('rooms', row['r']), ('distributed-parameters', row['p']),
                                   ('session', row['s'])) if v == '1']
            if row['tracked']:
                left.append('tracking')
            if left and set(left) <= {'tracking', 'users'} and op[0] == 'logincut' and closed == ['write_error']:
                add(KNOWN_RESIDUAL, f'write failure inside the post-login burst (op #{i}): {left} '
                    f'(tracked: {row["tracked"]}) remain after the connection was closed', where,
                    'no tracked users, no stored users')
            elif left:
                add('C16-not-reset:' + left[0], f'server connection closed ({closed}) in op #{i} {op} but still '
                    f'stored afterwards: {left}', where, 'users, rooms, tracking, distributed parameters empty')
        # ---- M5: reconnect iff auto ∧ reason ∉ {requested, eof} ∧ not stopped
        if stop_at is None and op[0] != 'stop':
            if pending_loss is not None and op[0] == 'tick' and not inv:
                pending_loss['ticks'] += op[1]
                pending_loss['att'] += int(row['att'])
                want = pending_loss['want']
                if not want and int(row['att']):
                    add('C16-reconnect-unrequested', f'a new server connection was attempted (op #{i}) although the '
                        f'connection was closed with reason {pending_loss["reason"]} / reconnect.auto='
                        f'{cfg["reconnect"]}', where, 'no reconnect')
                if want and pending_loss['ticks'] >= 22 and pending_loss['att'] == 0:
                    add('C16-reconnect-missing', f'no reconnect attempt within {pending_loss["ticks"] * 0.5} s after an '
                        f'unrequested loss ({pending_loss["reason"]}) with reconnect.auto on', where,
                        'a connect attempt after reconnect.timeout')
                    pending_loss = None
                elif want and pending_loss['att'] and row['c'] == 'connected':
                    if int(row['login']) == 0:
                        add('C16-reconnect-no-login', f'reconnected (op #{i}) without a new login', where)
                    pending_loss = None
            elif pending_loss is not None and int(row['att']):
                add('C16-reconnect-unrequested', f'server connect attempt during op #{i} {op}', where)
            was_connected = i > 0 and rows[i - 1]['c'] == 'connected'
            if closed and not inv and (was_connected or int(row['conn']) or (op[0] == 'tick' and int(row['att']))):
                # an established connection was lost, or a reconnect attempt of the watchdog failed
                reason = closed[-1]
                pending_loss = {'reason': reason, 'ticks': 0, 'att': 0,
                                'want': bool(cfg['reconnect']) and reason not in ('requested', 'eof')}
        # ---- M6: stop is final
        if op[0] == 'stop' and not inv:
            stop_at = i
            pending_loss = None
            if row['res'].startswith('raised'):
                add('C16-stop-raised', f'stop() raised {row["res"][7:]}', where, 'stop() returns')
            tasks = [t for t in row['tasks'].split(',') if t]
            if tasks:
                add('C16-stop-task-pending:' + tasks[0], f'after stop() returned, tasks started by the library are '
                    f'still pending: {tasks}', where, 'no pending library task')
            if int(row['open']) != 0:
                add('C16-stop-socket-open', f'after stop() returned {row["open"]} socket(s) are open', where, '0')
        elif stop_at is not None and not inv:
            tasks = [t for t in row['tasks'].split(',') if t]
            if ex['any_att'] or int(row['att']) or int(row['conn']):
                add('C16-connect-after-stop', f'a connection was attempted/opened after stop() (op #{i} {op}, '
                    f'{ex["any_att"]} attempts)', where, 'none is opened later')
            if int(row['login']) or n_init or row['frames'] or ex['other_frames']:
                add('C16-traffic-after-stop', f'the server received frames after stop() (op #{i})', where)
            if tasks and op[0] in ('tick', 'srvup', 'srvreply'):
                add('C16-stop-task-pending:' + tasks[0], f'library tasks pending after stop(): {tasks} (op #{i})',
                    where)
            if int(row['open']) != 0:
                add('C16-stop-socket-open', f'{row["open"]} socket(s) open after stop() (op #{i})', where, '0')
    return vs


# --------------------------------------------------------------------------------------------
# generator
# --------------------------------------------------------------------------------------------

REASONS = ['eof', 'read_error', 'write_error', 'requested', 'timeout', 'unknown']


def _gen_cfg(rng: random.Random) -> dict:
    user = 'me'
    pool = ['f1', 'f2', 'f3', 'zed']
    friends = rng.sample(pool, rng.choice([0, 0, 1, 2, 3]))
    if rng.random() < 0.15:
        friends.append(user)
    port_choice = rng.choice(['both', 'both', 'both', 'clear', 'obf', 'none'])
    clear = 60000 if port_choice in ('both', 'clear') else 0
    obf = 60001 if port_choice in ('both', 'obf') else 0
    mode = {'both': rng.choice(['clear', 'clear', 'all', 'any']), 'clear': rng.choice(['clear', 'all', 'any']),
            'obf': rng.choice(['all', 'any', 'clear']), 'none': rng.choice(['any', 'any', 'all'])}[port_choice]
    return {
        'user': user, 'friends': friends,
        'liked': rng.sample(['rock', 'jazz', 'folk'], rng.choice([0, 1, 2])),
        'hated': rng.sample(['noise', 'pop'], rng.choice([0, 0, 1, 2])),
        'favs': rng.sample(['room1', 'lounge', 'dev'], rng.choice([0, 1, 2, 2])),
        'autojoin': rng.random() < 0.6, 'invites': rng.random() < 0.5, 'reconnect': rng.random() < 0.6,
        'sfp': rng.random() < 0.75, 'logconn': rng.random() < 0.2, 'reqtimeout': rng.random() < 0.6,
        'wishlist': rng.choice([0, 0, 1, 2]), 'scan': rng.random() < 0.85, 'slowscan': rng.random() < 0.1,
        'clear': clear, 'obf': obf, 'clearfail': rng.random() < 0.08, 'obffail': rng.random() < 0.1, 'mode': mode,
        'ndirs': rng.choice([0, 1, 2]), 'fpd': rng.choice([0, 1, 2, 3]), 'race': rng.random() < 0.5,
    }


def _listen_ok(cfg: dict) -> bool:
    fails = ([cfg['clearfail']] if cfg['clear'] else []) + ([cfg['obffail']] if cfg['obf'] else [])
    if cfg['mode'] == 'all':
        return not all(fails)
    if cfg['mode'] == 'any':
        return not any(fails)
    return bool(cfg['clear']) and not cfg['clearfail']


def _gen_case(rng: random.Random) -> dict:
    """Random walk biased by a ROUGH shadow of the connection state (only to make most operations applicable;
    inapplicable ones are skipped consistently by both sides)."""
    cfg = _gen_cfg(rng)
    kind = rng.choice(['idle-loss', 'idle-loss', 'burst-cut', 'login-variants', 'pending-work', 'reconnect',
                       'reconnect', 'early-stop', 'mixed', 'mixed'])
    ops: list[list] = []
    sh = {'up': True, 'reply': 'accepted', 'conn': False, 'sess': False, 'reader': False, 'wd': False, 'since': 0}
    blen = _burst_len(cfg)
    wl_used = False

    def emit(op):
        ops.append(op)
        k = op[0]
        if k == 'srvup':
            sh['up'] = op[1]
        elif k == 'srvreply':
            sh['reply'] = op[1]
        elif k == 'start':
            sh['conn'] = _listen_ok(cfg) and sh['up']
            sh['wd'] = sh['conn'] and cfg['reconnect']
        elif k == 'login' and sh['conn'] and not sh['sess'] and not sh['reader']:
            if sh['reply'] == 'accepted':
                sh['sess'] = sh['reader'] = True
            elif sh['reply'] == 'eof':
                sh['conn'] = False
                sh['wd'] = False
        elif k == 'logincut' and sh['conn'] and not sh['sess'] and not sh['reader']:
            if op[1] >= blen:
                sh['sess'] = sh['reader'] = True
            else:
                sh['conn'] = False
                sh['since'] = 0
        elif k == 'loss' and sh['conn']:
            if op[1] in ('eof', 'read_error') and not sh['reader']:
                return
            sh['conn'] = sh['sess'] = sh['reader'] = False
            sh['since'] = 0
            if op[1] in ('requested', 'eof'):
                sh['wd'] = False
        elif k == 'tick':
            if not sh['conn'] and sh['wd']:
                sh['since'] += op[1]
                if sh['since'] >= 21:
                    sh['since'] = 0
                    if sh['up']:
                        sh['conn'] = True
                        if sh['reply'] == 'accepted':
                            sh['sess'] = sh['reader'] = True
                        elif sh['reply'] == 'eof':
                            sh['conn'] = False
                            sh['wd'] = False

    def idle():
        emit(['tick', rng.choice([1, 2, 4, 4, 7, 21, 22, 24, 45, 50])])

    def work():
        nonlocal wl_used
        if not sh['reader']:
            emit([rng.choice(['search', 'exec', 'exec'])])
            return
        c = rng.choice(['populate', 'search', 'wl', 'pp', 'exec', 'search', 'populate', 'pp', 'sr', 'sr'])
        if c == 'wl':
            if wl_used:
                c = 'search'
            wl_used = True
        emit([c])

    def login():
        r = rng.random()
        if kind == 'burst-cut' and r < 0.7 or r < 0.1:
            emit(['logincut', rng.randint(0, blen + 1)])
        elif kind == 'login-variants' or r < 0.3:
            mode = rng.choice(['rejected', 'garbled', 'eof', 'accepted'])
            emit(['srvreply', mode])
            emit(['login'])
            if mode != 'accepted' and rng.random() < 0.8:
                emit(['srvreply', 'accepted'])
                if sh['conn'] and rng.random() < 0.7:
                    emit(['login'])
        else:
            if sh['reply'] != 'accepted' and rng.random() < 0.7:
                emit(['srvreply', 'accepted'])
            emit(['login'])

    def loss():
        pool = REASONS if sh['reader'] else ['write_error', 'requested', 'timeout', 'unknown']
        emit(['loss', rng.choice(pool)])
        if rng.random() < 0.7:
            if rng.random() < 0.15:
                emit(['srvup', False])
            if rng.random() < 0.2:
                emit(['srvreply', rng.choice(['rejected', 'garbled', 'eof'])])
            emit(['tick', rng.choice([2, 10, 20, 21, 22, 30, 43, 44])])

    if rng.random() < 0.06:
        emit(['srvup', False])
    emit(['start'])
    if kind == 'early-stop':
        for _ in range(rng.randint(0, 2)):
            rng.choice([idle, lambda: emit(['exec']), lambda: emit(['search'])])()
        if rng.random() < 0.5:
            login()
    else:
        if rng.random() < 0.15:
            emit(['exec'])
        if rng.random() < 0.15:
            loss()                                   # before login
        for _ in range(rng.randint(2, 8)):
            r = rng.random()
            if sh['conn'] and not sh['sess'] and not sh['reader'] and r < 0.7:
                login()
            elif not sh['conn'] and not sh['wd'] and r < 0.5:
                break                                # nothing more can happen
            elif not sh['conn'] and not sh['up'] and r < 0.5:
                emit(['srvup', True])
            elif r < 0.35:
                work()
            elif r < 0.6:
                idle()
            elif r < 0.88 and sh['conn']:
                loss()
            elif r < 0.93:
                emit(['srvup', rng.random() < 0.6])
            else:
                emit(['exec'])
    if rng.random() < 0.3:
        emit(['tick', rng.choice([1, 3, 9, 19, 20, 21])])
    ops = ops[:26]
    ops.append(['stop'])
    if rng.random() < 0.25:
        ops.append(['srvup', True])
        ops.append(['srvreply', 'accepted'])
    ops.append(['tick', HOUR_TICKS])
    case = {'cfg': cfg, 'ops': ops, 'kind': kind}
    _sanitize(case)
    return case


def _sanitize(case: dict):
    """Keep the script inside what the model describes (never a finding):
    after a burst cut that leaves tracking entries behind (known finding) the stale tracking tasks make a later
    automatic re-login time dependent — with reconnect on, the reconnect delay must not elapse before stop()."""
    cfg = case['cfg']
    n = _burst_len(cfg)
    budget = None
    out = []
    for op in case['ops']:
        if op[0] == 'stop':
            budget = None
        if budget is not None:
            if op[0] == 'tick':
                t = min(op[1], budget)
                budget -= t
                if t == 0:
                    continue
                op = ['tick', t]
            elif op[0] in ('login', 'logincut'):
                continue
        if op[0] == 'logincut' and op[1] < n and budget is None:
            budget = 20 if cfg['reconnect'] else 10 ** 9
        out.append(op)
    case['ops'] = out


def _base_cfg(**kw) -> dict:
    cfg = {'user': 'me', 'friends': ['f1', 'f2'], 'liked': ['rock'], 'hated': ['pop'], 'favs': ['room1', 'dev'],
           'autojoin': True, 'invites': True, 'reconnect': True, 'sfp': True, 'logconn': False, 'reqtimeout': True,
           'wishlist': 1, 'scan': True, 'slowscan': False, 'clear': 60000, 'obf': 60001, 'clearfail': False,
           'obffail': False, 'mode': 'clear', 'ndirs': 1, 'fpd': 2, 'race': False}
    cfg.update(kw)
    return cfg


END = [['stop'], ['tick', HOUR_TICKS]]
# known schedules, always run (also the replay inputs of the fixes/C16-*.md notes)
DIRECTED = [
    # (a) favourites joined iff auto_join
    {'kind': 'directed-autojoin-on', 'cfg': _base_cfg(), 'ops': [['start'], ['login'], ['tick', 4]] + END},
    {'kind': 'directed-autojoin-off', 'cfg': _base_cfg(autojoin=False), 'ops': [['start'], ['login'], ['tick', 4]] + END},
    # (b) potential-parent connect pending at stop()
    {'kind': 'directed-pp-stop', 'cfg': _base_cfg(reconnect=False),
     'ops': [['start'], ['login'], ['pp'], ['tick', 2]] + END},
    {'kind': 'directed-pp-stop-race', 'cfg': _base_cfg(reconnect=False, race=True),
     'ops': [['start'], ['login'], ['pp'], ['tick', 2]] + END},
    # a search reply connecting to the asker at stop(): both connect modes, before / after the direct timeout
    {'kind': 'directed-sr-stop', 'cfg': _base_cfg(reconnect=False),
     'ops': [['start'], ['login'], ['sr'], ['tick', 2]] + END},
    {'kind': 'directed-sr-stop-race', 'cfg': _base_cfg(reconnect=False, race=True),
     'ops': [['start'], ['login'], ['sr'], ['pp'], ['tick', 2]] + END},
    {'kind': 'directed-sr-stop-race-late', 'cfg': _base_cfg(reconnect=False, race=True),
     'ops': [['start'], ['login'], ['sr'], ['tick', 19], ['tick', 1], ['pp'], ['tick', 30]] + END},
    # the peer WOULD accept the connection 4 s after the attempt began; stop() comes first: nothing may be opened later
    {'kind': 'directed-stop-before-peer-accepts', 'cfg': _base_cfg(reconnect=False, peerdelay=8),
     'ops': [['start'], ['login'], ['sr'], ['pp'], ['tick', 2]] + END},
    {'kind': 'directed-stop-before-peer-accepts-race', 'cfg': _base_cfg(reconnect=False, race=True, peerdelay=8),
     'ops': [['start'], ['login'], ['sr'], ['pp'], ['tick', 2]] + END},
    # connects that end by themselves (fallback 70 s, race 60 s), across a loss of the server connection
    {'kind': 'directed-connect-expires', 'cfg': _base_cfg(reconnect=False),
     'ops': [['start'], ['login'], ['sr'], ['pp'], ['tick', 100], ['loss', 'eof'], ['tick', 39], ['tick', 1]] + END},
    {'kind': 'directed-connect-expires-race', 'cfg': _base_cfg(reconnect=False, race=True),
     'ops': [['start'], ['login'], ['sr'], ['pp'], ['tick', 100], ['loss', 'eof'], ['tick', 19], ['tick', 1]] + END},
    # (c) stop() while the watchdog waits out the reconnect delay
    {'kind': 'directed-watchdog-stop', 'cfg': _base_cfg(),
     'ops': [['start'], ['login'], ['tick', 10], ['loss', 'read_error'], ['tick', 4]] + END},
    # (d) search request timers / wishlist timers pending at stop()
    {'kind': 'directed-timers-stop', 'cfg': _base_cfg(reconnect=False),
     'ops': [['start'], ['login'], ['search'], ['wl'], ['tick', 2]] + END},
    # (e) AddUser write fails inside a tracking task
    {'kind': 'directed-cut-adduser', 'cfg': _base_cfg(reconnect=False),
     'ops': [['start'], ['logincut', 6], ['tick', 4], ['exec']] + END},
    # (f) the scan started by start() is still running at stop()
    {'kind': 'directed-slow-scan', 'cfg': _base_cfg(slowscan=True, reconnect=False),
     'ops': [['start'], ['login'], ['tick', 4]] + END},
    # reconnect and re-login after an unrequested loss; none after EOF / requested
    {'kind': 'directed-reconnect', 'cfg': _base_cfg(),
     'ops': [['start'], ['login'], ['populate'], ['loss', 'write_error'], ['tick', 20], ['tick', 2], ['loss', 'eof'],
             ['tick', 50]] + END},
    # login rejected / garbled / EOF, then accepted
    {'kind': 'directed-login-variants', 'cfg': _base_cfg(reconnect=False),
     'ops': [['start'], ['exec'], ['srvreply', 'rejected'], ['login'], ['srvreply', 'garbled'], ['login'], ['exec'],
             ['srvreply', 'accepted'], ['login'], ['exec']] + END},
    # no listening ports at all / bind failure
    {'kind': 'directed-no-ports', 'cfg': _base_cfg(clear=0, obf=0, mode='any'), 'ops': [['start'], ['login']] + END},
    {'kind': 'directed-obf-bind-fails', 'cfg': _base_cfg(obffail=True), 'ops': [['start'], ['login']] + END},
    {'kind': 'directed-start-fails', 'cfg': _base_cfg(clearfail=True), 'ops': [['start'], ['exec'], ['tick', 4]] + END},
    {'kind': 'directed-server-down', 'cfg': _base_cfg(),
     'ops': [['srvup', False], ['start'], ['tick', 50], ['srvup', True], ['tick', 50]] + END},
]
# the known finding (kept separate: it is replayed through known_witnesses as well)
WITNESS_RESIDUAL = {'kind': 'directed-cut-before-users', 'cfg': _base_cfg(reconnect=False),
                    'ops': [['start'], ['logincut', 1], ['tick', 4]] + END}


def _eval_case(case):
    try:
        return _run_impl(case)
    except Exception as e:      # the harness itself failed: surface it
        import traceback
        return {'lines': [], 'extras': [], 'harness_error': f'{type(e).__name__}: {e}',
                'tb': traceback.format_exc()[-2500:]}


class C16(Property):
    id = 'C16'
    props_module = 'AioslskVerif.Props.C16'
    driver_module = 'AioslskVerif.Driver.C16'
    rule = ('full SoulSeekClient + scripted server on FakeNet under SimLoop; settings grid (0..2 listening ports incl. '
            'bind failures and the three error modes, 0..4 friends incl. the own name, 0..2 liked / hated interests, '
            '0..2 favourite rooms, auto_join, invites, reconnect.auto, search_for_parent, request timers, 0..2 wishlist '
            'entries, 0..2 shared directories x 0..3 files, scan on start / slow scan, peer.connect_mode fallback / race) x '
            'scripts of up to 28 operations '
            '(login accepted / rejected / garbled / EOF, write failure at every burst frame, loss with each close '
            'reason before login / idle / with searches, wishlist, potential-parent and search-reply connects (incl. '
            'their race children) pending, server down / '
            'up, waits around the reconnect delay, stop() at each point + 1 h of virtual time), derived from '
            'VERIF_SEED; a case is non-trivial when a session was initialised AND (a loss other than by stop() '
            'occurred OR work was pending at stop() OR a login variant other than accepted was used); distinct = '
            'distinct canonical case')
    assumptions = [
        'asyncio / CPython semantics are exercised, not modelled; FakeNet stands in for TCP (close feeds EOF to both '
        'readers, reset makes reads and writes fail), SimLoop for time',
        'peers are unreachable (the connect neither completes nor is refused before its timeout; in two directed '
        'cases the peer would accept 4 s later, after stop()); no established peer connection; UPnP disabled',
        'the scripted server answers every AddUser at once (no tracking retries) and sends nothing unsolicited',
        'close reasons TIMEOUT and UNKNOWN are injected by calling ServerConnection.disconnect(reason), the call '
        'DataConnection._read/_send make on that path; EOF, READ_ERROR, WRITE_ERROR, REQUESTED, CONNECT_FAILED arise '
        'from the fake network',
        'at most one WishlistInterval per scenario (a second one kills the server reader: C02 finding, fix '
        'proposed there)',
    ]
    modelled = ('the SessionInitialized listeners of network, distributed, user, room, interest, shares managers (burst, '
                'in listener order); client.start/login/execute/stop, _on_connection_state_changed, '
                '_on_server_reconnected; Network.initialize / connect_listening_ports (error modes) / disconnect / '
                '_cancel_all_tasks / watchdog job (0.5 s ticks, reconnect delay) / CLOSING+CLOSED listeners of all '
                'managers; life of every library task by spawn site (inventory tied to an ast scan of create_task / '
                'BackgroundTask / Timer sites, of client.services and of the cancel calls on the shutdown paths). '
                'Exercised but not modelled: transfers (no transfer in the scenarios), peer connections other than a '
                'pending potential-parent / search-reply connect to an unreachable peer (both connect modes), UPnP, tracking '
                'retries, a distributed parent at '
                'login time (model only)')

    def regenerate(self):
        from translate import task_sites
        return [task_sites.generate(common.REPO, common.LEAN / 'AioslskVerif/Generated/TaskSites.lean')]

    def correspondence(self, seed, tier, model_ok, widen=1):
        res = KResult()
        rng = random.Random(f'C16-{seed}')
        n = (600 if tier == 'quick' else 5000) * widen
        cases = list(DIRECTED) + [WITNESS_RESIDUAL] + [_gen_case(rng) for _ in range(n)]
        impl = common.parallel_map(_eval_case, cases, chunksize=4)
        model = None
        if model_ok:
            lines, spans = [], []
            for c in cases:
                ls = _model_lines(c)
                spans.append((len(lines) + 1, len(ls) - 1))       # skip the answer to `cfg`
                lines += ls
            out = common.run_driver(self.driver_file, lines)
            model = [out[a:a + k] for a, k in spans]
        else:
            res.model_available = False
        for i, c in enumerate(cases):
            res.evaluations += 1
            io = impl[i]
            if io.get('harness_error'):
                raise RuntimeError(f'C16 harness error: {io["harness_error"]}\n{io.get("tb")}\ncase={c}')
            res.count('kind:' + c['kind'])
            rows = [_parse(l) for l in io['lines']]
            feats = set()
            stopped = False
            for op, row in zip(c['ops'], rows):
                res.count('op:' + op[0] + (':invalid' if row['inv'] == '1' else ''))
                if row['inv'] == '1':
                    continue
                if op[0] == 'stop':
                    stopped = True
                if int(row['init']):
                    feats.add('session')
                if op[0] == 'loss':
                    feats.add('loss')
                    res.count('loss:' + op[1])
                for r in row['closed'].split(','):
                    if r:
                        res.count('closed:' + r)
                        if not stopped and op[0] != 'stop':
                            feats.add('loss')
                if op[0] == 'logincut' and 'write_error' in row['closed']:
                    feats.add('burst-cut')
                    res.count('burst-cut')
                if op[0] == 'tick' and int(row['att']):
                    feats.add('reconnect')
                    res.count('reconnect-attempt')
                if op[0] == 'login' and row['res'] in ('auth', 'err'):
                    feats.add('login-variant')
                    res.count('login:' + row['res'])
                if op[0] == 'stop':
                    before = rows[c['ops'].index(op) - 1] if c['ops'].index(op) else None
                    if before is not None and any(t in before['tasks'] for t in
                                                  ('timer', 'potential-parent', 'search-reply', 'connect', 'watchdog', 'scan', 'wishlist')):
                        feats.add('pending-at-stop')
                        res.count('pending-work-at-stop')
                    if before is not None:
                        res.count('stop-in-state:' + before['c'] + ('+session' if before['s'] == '1' else ''))
            for f in feats:
                res.count('feature:' + f)
            if 'session' in feats and feats & {'loss', 'pending-at-stop', 'login-variant', 'burst-cut'}:
                res.nontrivial_keys.add(common.sha([c['cfg'], c['ops']]))
            if model is not None:
                res.traces_validated += 1
                a, b = _canon(c, model[i]), _canon(c, io['lines'])
                if a != b:
                    k = next((j for j, (x, y) in enumerate(zip(a, b)) if x != y), min(len(a), len(b)))
                    res.disagreements.append(Disagreement(
                        c, b[k] if k < len(b) else None, a[k] if k < len(a) else None,
                        f'op #{k}: {c["ops"][k] if k < len(c["ops"]) else ""}'))
            res.violations += _monitor(c, io)
            if len(res.samples) < 3 and c['kind'] in ('directed-reconnect', 'directed-watchdog-stop', 'directed-sr-stop-race'):
                res.samples.append({'case': c, 'impl': io['lines']})
        return res

    def replay(self, case):
        io = _eval_case(case)
        if io.get('harness_error'):
            raise RuntimeError(io['harness_error'] + '\n' + io.get('tb', ''))
        return _monitor(case, io)

    def known_witnesses(self):
        return [(KNOWN_RESIDUAL, WITNESS_RESIDUAL)]


PROPERTY = C16()
