"""C10 — connection life cycle is monotone and the connection registry is exact.

Correspondence K_C10 + monitor (DESIGN.md, C10).

A real `Network` (real `ServerConnection`, `ListeningConnection`s, `PeerConnection`s) runs on
`vlib.connharness.GatedNet` under `vlib.simloop.SimLoop`.  Every real suspension point of the anchored
code (open_connection, drain, wait_closed, reads, timers) is released by the schedule, one completion
per op; after each op the loop runs to quiescence and the harness records, for the connection the op
addressed: the `ConnectionStateChangedEvent`s / `MessageReceivedEvent`s / `PeerInitializedEvent`s and
socket writes in emission order, the results of attempt / send tasks, `CannotConnect` seen by the
server; and globally: `Network.peer_connections`, every connection's `state`, every socket's openness.
The same op list goes through the Lean driver (`Driver/C10.lean`, executing `Model/Conn.lean`): every op as a
fine-grained step (it stops at the first state notification) followed by one `noteA` / `noteC` / `parkA` / `parkC` line
per thing the application listener did during that op (returned at once, suspended, was released) — `_model_groups`.

case = {'kind': str, 'server': bool, 'ops': [op...], 'cfg'?: {'obfuscate': 0|1, 'mode': 'fallback'|'race',
                                                             'monitor_only': bool}}
  op = ['new', origin, typF, slow, obf] | ['at', i, name, arg?] | ['net', 'disconnect', new?...] | ['gate', arms]
    origin: direct | back | incoming | server | api (public `create_peer_connection`; monitor only)
    slow: what wait_closed() of the socket does: 0 returns, 1 suspends (closeDone release / timeout), 2 the peer has stopped
         reading with output still queued — close() leaves the transport alive and writable until `unstall` (monitor only),
         3 raises at once (monitor only)
    ['gate', [[i, STATE, mode], ...]]: from now on an application listener of ConnectionStateChangedEvent (registered behind
         the recorder) suspends at the STATE notification of connection i (mode 'park'; released by ['at', i, 'release', STATE])
         or calls disconnect() / send_message() / send_data() from inside it (mode 'act:disconnect|send|sendData'); replaces
         the previous arms (harness only: not a step of the model).  The same list as case['gate'] arms the listener from the start.
    raw data calls of a file connection: ['at', i, 'sendData', ok|block|fail] | 'recvData' | 'data' (raw bytes from the peer)
         and, monitor only, 'sendFile' | 'recvFile' | 'recvEof' | 'recvEofQuiet' | 'unstall' | ['closeDone', 'raise']
    obf: 0 regular port, 1 obfuscated port, 2 both ports advertised (back: in the ConnectToPeer message; direct / api:
         the address is looked up with GetPeerAddress), 3 / 4 (direct / api): looked up, regular / obfuscated port only
    ['at', i, 'burst', [[name, arg?], ...]]: several calls / events in ONE loop iteration (no quiescent point between)
    ['at', i, 'hangup', 'eof'|'reset']: the remote end closes / resets its side of the socket WHOEVER is (or is not) reading
         at that moment (monitor only; `eof` / `reset` are the same event delivered to a parked reader).  A connection the
         library itself reads from (an accepted connection before / after its first frame, a type P connection, the server
         connection) must then be reported CLOSED and leave the registry once nothing is pending any more
    ['at', i, 'firstFrame', kind]: kind = initP | initF | pierceP | pierceF | pierceUnknown | pierceApi, or a COMPLETE frame
         (initD / initX: a PeerInit of a distributed connection / of a connection type nobody knows; monitor only)
         that is no peer-init message (UNDECODABLE_FIRST: unknown code without / with a body, a PeerInit / PeerPierceFirewall
         whose body is cut short inside a complete frame, a frame of length 0)
An op that is not enabled on the implementation (nothing parked there) is skipped and not sent to the
model; grid scenarios are written so that nothing is skipped.

The monitor judges per connection OBJECT: every object that ever reported a state (or sits in the registry) has its own
track, also objects the scenario did not ask for; which sockets / connect attempts belong to an object is recorded by
the fake net (`GatedNet.attempt_log`), not read from the object.
"""
from __future__ import annotations

import asyncio
import logging
import random
import struct
from functools import partial
from typing import Any, Optional

from vlib import common, simloop
from vlib.common import KResult, Violation, Disagreement, Property
from vlib.connharness import (GatedNet, Observer, SiteAudit, make_settings, start_network, fire_timer, find_timer,
                              SERVER_ADDR, CLEAR_PORT, OBFS_PORT)
from vlib.simloop import settle

RANK = {'UNINITIALIZED': 0, 'CONNECTING': 1, 'CONNECTED': 2, 'CLOSING': 3, 'CLOSED': 4}


# --------------------------------------------------------------------------------------------
# implementation side
# --------------------------------------------------------------------------------------------

HANG_S = 10.0

# Every place where a task of the anchored code (network/connection.py, network/network.py) is found suspended
# after a loop iteration, as `file:function>awaited` (`start` = created, first step not yet run).  These are the
# suspension points the models name (open_connection, drain, wait_closed, stream reads, asyncio.wait / gather,
# the response futures).  Anything else seen by vlib.connharness.SiteAudit is a `granularity` break.
KNOWN_SITES = frozenset([
    'connection.py:_message_reader_loop>start', 'connection.py:_read_message>readexactly', 'connection.py:_send>drain',
    'connection.py:accept>start', 'connection.py:connect>open_connection', 'connection.py:disconnect>start',
    'connection.py:disconnect>wait_closed', 'connection.py:send_message>start',
    'connection.py:disconnect>sleep',     # the single yield on the writer-already-closing branch (never parked at quiescence)
    'network.py:on_state_changed>emit',   # a listener of a state notification has suspended (att = note… / cph = note…)
    # the raw data calls of file connections (first step not yet run; parked in the stream read / in drain())
    'connection.py:send_data>start', 'connection.py:receive_data>start', 'connection.py:_read>read',
    'connection.py:send_file>start', 'connection.py:receive_file>start', 'connection.py:receive_until_eof>start',
    'network.py:_create_peer_connection_race>future', 'network.py:_create_peer_connection_race>wait',
    'network.py:_get_peer_address>future', 'network.py:_handle_connect_to_peer>start',
    'network.py:_make_direct_connection>start', 'network.py:_make_indirect_connection>start',
    'network.py:_make_indirect_connection>wait', 'network.py:connect_listening_ports>future',
    'network.py:connect_server>start', 'network.py:create_peer_connection>start',
    'network.py:disconnect>future', 'network.py:disconnect>start',      # Network.disconnect(): the gather
])


def site_breaks(cases: list, impl: list) -> list:
    """One Disagreement per await site that the models do not name (first case that shows it)."""
    out, seen = [], set()
    for c, io in zip(cases, impl):
        for site in io.get('sites', []):
            if site not in KNOWN_SITES and site not in seen:
                seen.add(site)
                out.append(Disagreement(c, {'await_site': site}, {'known_sites': sorted(KNOWN_SITES)},
                                        'granularity: the anchored code suspends at a point the model does not name'))
    return out


class _Hang(BaseException):
    pass


class _FakeFile:
    """what send_file / receive_file need of an aiofiles handle"""

    def __init__(self, chunks):
        self.chunks = list(chunks)
        self.written = bytearray()

    async def read(self, n=-1):
        return self.chunks.pop(0) if self.chunks else b''

    async def write(self, data):
        self.written += data


class _Slot:
    def __init__(self, idx, origin, typF, slow, obf):
        self.idx, self.origin, self.typF, self.slow, self.obf = idx, origin, typF, slow, obf
        self.key = None              # the address the unchanged code dials (select_port)
        self.keys: list = []         # every address advertised for this peer
        self.task: Optional[asyncio.Task] = None
        self.task_reported = False
        self.conn = None
        self.cfg = None              # how the init write behaves ('ok'|'block'|'fail')
        self.sends: list = []        # [task, reported]
        self.queued: list = []       # [queue_message task, reported]
        self.raws: list = []         # [task of a raw data call (send_data / receive_data / send_file / ...), reported, kind]
        self.acts: list = []         # result tokens of the calls a listener made from inside a notification
        self.ticket = 100 + idx
        self.remote_closed = False   # the remote end closed/reset the socket while the library was reading/draining
        self.hung = None             # 'eof' | 'reset': the remote end hung up no matter who was reading (`hangup`)
        self.first = None            # kind of the first frame an accepted connection was sent


def _run_impl(case: dict) -> dict:
    from aioslsk.network.network import Network, PeerFuture
    from aioslsk.network.connection import (PeerConnection, ServerConnection, ListeningConnection, CloseReason,
                                            ConnectionState, PeerConnectionState)
    from aioslsk.events import EventBus, ConnectionStateChangedEvent
    from aioslsk.exceptions import ConnectionWriteError, ConnectionReadError
    from aioslsk.protocol import obfuscation
    from aioslsk.protocol.messages import (PeerInit, PeerPierceFirewall, PeerSharesRequest, ConnectToPeer,
                                           CannotConnect, GetUserStatus, Ping, GetPeerAddress)
    from vlib.simserver import SimServer
    from vlib.connharness import _frames_of, pending_timers

    cfg = case.get('cfg') or {}
    prefer_obfs = bool(cfg.get('obfuscate'))
    settings_of = lambda: make_settings(cfg.get('mode', 'fallback'), obfuscate=prefer_obfs)  # noqa: E731

    hang = {'hit': 0}

    async def main(loop):
        # a busy loop inside the library (no suspension, so virtual time cannot help) is ended by an exception that
        # `except Exception` arms of the library do not swallow; the task it hits dies, the case goes on and is flagged
        import signal

        # (the budget is CPU time of this process, not wall time: a loaded machine must not look like a busy loop)
        def on_alarm(signum, frame):
            hang['hit'] += 1
            signal.setitimer(signal.ITIMER_PROF, HANG_S)
            raise _Hang()
        old_prof = None
        try:
            old_prof = signal.signal(signal.SIGPROF, on_alarm)
            signal.setitimer(signal.ITIMER_PROF, HANG_S)
        except ValueError:
            pass
        audit = SiteAudit(loop)
        fn = GatedNet().install()
        try:
            slots: list[_Slot] = []
            by_key: dict = {}
            log: list = []            # (idx, token) ordered observable events
            full: list = []           # same, never truncated, with op number (for the monitor)
            opno = [0]

            objs: dict = {}           # id(connection object) -> [object (strong ref), label, origin]
            extra_n = [0]

            def idx_of(conn):
                """label of a connection OBJECT: the slot index for the (first) object of a scenario connection, its own
                label for any other object (a second object for the same peer address: '<idx>~n'; unknown address: '?n:..')"""
                if isinstance(conn, ServerConnection):
                    for s in slots:
                        if s.origin == 'server':
                            s.conn = conn
                            objs.setdefault(id(conn), [conn, s.idx, 'server'])
                            return s.idx
                    return 'S'
                if isinstance(conn, ListeningConnection):
                    return 'L'
                ent = objs.get(id(conn))
                if ent is not None:
                    return ent[1]
                key = (conn.hostname, conn.port)
                s = by_key.get(key)
                if s is None:
                    extra_n[0] += 1
                    label, origin = f'?{extra_n[0]}:{conn.hostname}:{conn.port}', 'extra'
                elif s.conn is None:
                    s.conn = conn
                    label, origin = s.idx, s.origin
                else:
                    extra_n[0] += 1
                    label, origin = f'{s.idx}~{extra_n[0]}', 'extra'
                objs[id(conn)] = [conn, label, origin]
                # an accepted socket belongs to the object that reports / is registered with its remote address
                for a in fn.incoming_log:
                    if a['owner'] is None and a['key'] == key:
                        a['owner'] = conn
                        break
                return label

            def emit(i, tok):
                log.append((i, tok))
                full.append((opno[0], i, tok))

            class Obs(Observer):
                def on_state(self, ev):
                    i = idx_of(ev.connection)
                    tok = ev.state.name + (':' + ev.close_reason.name if ev.state == ConnectionState.CLOSING else '')
                    emit(i, tok)

                def on_message(self, ev):
                    emit(idx_of(ev.connection), 'msg')

                def on_init(self, ev):
                    emit(idx_of(ev.connection), 'init:req' if ev.requested else 'init:unreq')

            def mark(i, tok):
                """for the monitor only (not part of the lines compared with the model)"""
                full.append((opno[0], i, tok))

            class Gate:
                """An application listener of ConnectionStateChangedEvent, registered BEHIND the recorder: the recorder has
                been told (= the state has been reported) when this one runs.  `case['gate']` = [[i, STATE, mode], ...]:
                  mode 'park'            the listener suspends until the schedule releases it (`['at', i, 'release', STATE]`);
                  mode 'act:<what>'      the listener itself calls, from inside the notification, disconnect() /
                                         send_message() / send_data() on the connection it is told about.
                `log` = [op number, label, STATE, kind] with kind in pass | park | resume | cancel | act (in order)."""

                def __init__(self):
                    self.armed = {(g[0], g[1]): g[2] for g in case.get('gate', [])}
                    self.parked: list = []           # [label, STATE, future]
                    self.log: list = []
                    self._l = self.on_event
                    bus.register(ConnectionStateChangedEvent, self._l)

                def hook(self, conn, lab, state):
                    # the init message of an outgoing connection is written right after the CONNECTED notification:
                    # how that write behaves is set up now
                    if state == 'CONNECTED' and isinstance(lab, int) and slots[lab].origin in ('direct', 'back', 'api'):
                        slot = slots[lab]
                        w = libw(slot)
                        if w is not None and not w._closed and conn.state == ConnectionState.CONNECTED:
                            if slot.cfg == 'block':
                                w.drain_block = True
                            elif slot.cfg == 'fail':
                                w.fail_after = len(w.sent)

                async def on_event(self, ev):
                    conn = ev.connection
                    if isinstance(conn, ListeningConnection):
                        return
                    lab, state = idx_of(conn), ev.state.name
                    mode = self.armed.get((lab, state))
                    if mode == 'act:sendData' and getattr(conn, 'connection_type', '') != 'F':
                        mode = None           # send_data is a call of file connections
                    if mode is None:
                        self.log.append([opno[0], lab, state, 'pass'])
                        self.hook(conn, lab, state)
                        return
                    if mode.startswith('act:'):
                        self.log.append([opno[0], lab, state, mode])
                        what = mode[4:]
                        slot = slots[lab] if isinstance(lab, int) else None
                        try:
                            if what == 'disconnect':
                                await conn.disconnect(CloseReason.REQUESTED)
                            elif what == 'send':
                                try:
                                    await conn.send_message(PeerSharesRequest.Request()
                                                            if not isinstance(conn, ServerConnection) else Ping.Request())
                                    tok = 'send:ret'
                                except ConnectionWriteError:
                                    tok = 'send:err'
                                if slot is not None:
                                    slot.acts.append(tok)
                            elif what == 'sendData':
                                k = raw_id[0] = raw_id[0] + 1
                                mark(lab, f'call:raw:{k}:sendData')
                                try:
                                    await conn.send_data(b'D' * 32)
                                    tok = 'ret'
                                except ConnectionWriteError:
                                    tok = 'err'
                                mark(lab, f'done:raw:{k}:{tok}')
                                if slot is not None:
                                    slot.acts.append('send:' + tok)
                            else:
                                raise ValueError(mode)
                        except (ConnectionWriteError, ConnectionReadError):
                            pass
                        self.log.append([opno[0], lab, state, 'pass'])
                        self.hook(conn, lab, state)
                        return
                    fut = loop.create_future()
                    ent = [lab, state, fut]
                    self.parked.append(ent)
                    self.log.append([opno[0], lab, state, 'park'])
                    try:
                        await fut
                        self.log.append([opno[0], lab, state, 'resume'])
                        self.hook(conn, lab, state)
                    except asyncio.CancelledError:
                        self.log.append([opno[0], lab, state, 'cancel'])
                        raise
                    finally:
                        if ent in self.parked:
                            self.parked.remove(ent)

                def is_parked(self, lab, state) -> bool:
                    return any(e[0] == lab and e[1] == state and not e[2].done() for e in self.parked)

                def release(self, lab, state):
                    for e in self.parked:
                        if e[0] == lab and e[1] == state and not e[2].done():
                            e[2].set_result(None)
                            return True
                    return False

            raw_id = [0]

            server = SimServer()
            lookup: dict = {}         # username -> (ip, regular port, obfuscated port) answered to GetPeerAddress

            def on_request(srv, writer, msg):
                if isinstance(msg, GetPeerAddress.Request) and msg.username in lookup:
                    ip, port, oport = lookup[msg.username]
                    writer.write(GetPeerAddress.Response(msg.username, ip, port, obfuscated_port_amount=1 if oport else 0,
                                                         obfuscated_port=oport).serialize())
            server.on_request = on_request
            if case.get('server'):
                bus = EventBus()
                net = Network(settings_of(), bus)
                await net.connect_listening_ports()
                srv_tasks = []
            else:
                bus, net, server, srv_task = await start_network(loop, fn, settings_of(), server=server)
                srv_tasks = [srv_task]
            obs = Obs(bus, idx_of)
            gate = Gate()
            seen_cc = [0]

            def setup_for(slot):
                def setup(w):
                    # slow: 0 wait_closed() returns at once, 1 it suspends, 2 the peer has stopped reading with output
                    # still queued (close() leaves the transport alive, see GatedWriter.stall), 3 it raises at once
                    w.close_block = slot.slow in (1, 2)
                    w.stall = slot.slow == 2
                    if slot.slow == 3:
                        w.close_exc = ConnectionResetError('connection lost (fake)')
                    w.on_write = lambda data, i=slot.idx, w=w: emit(writer_label(w, i), 'wrote')
                    # (how the init write behaves is set up by Gate.hook, when the CONNECTED notification returns)
                return setup

            def writer_label(w, default):
                """label of the connection object that opened / was handed the socket (the fake net knows)"""
                for a in fn.attempt_log + fn.incoming_log:
                    if a['writer'] is w and a['owner'] is not None:
                        return idx_of(a['owner'])
                return default

            def libw(slot):
                """library side of the newest socket to one of the slot's addresses"""
                if len(slot.keys) <= 1:
                    return fn.lib_writers.get(slot.key)
                for a, _b in reversed(fn.pairs):
                    if a.peername in slot.keys:
                        return a
                return None

            def parked_key(slot):
                for k in (slot.keys or [slot.key]):
                    if fn.connect_parked(k):
                        return k
                return None

            def select(clear, oport):
                """which of the advertised ports is dialled (what `Network.select_port` documents)"""
                if clear and oport:
                    return oport if prefer_obfs else clear
                return clear or oport

            def sock_open(slot):
                w = libw(slot)
                return w is not None and not w._closed

            def accept_task(slot):
                return fn.accept_tasks.get(slot.key)

            def user_send_parked(slot):
                return any(not t.done() for t, _ in slot.sends) or any(
                    not e[0].done() and e[2] in ('sendData', 'sendFile') for e in slot.raws)

            def direct_sends(slot):
                return [t for t, _ in slot.sends] + [e[0] for e in slot.raws if e[2] in ('sendData', 'sendFile')]

            def queue_parked(slot):
                return any(not t.done() for t, _ in slot.queued)

            def user_tasks(slot):
                return [t for t, _ in slot.sends] + [t for t, _ in slot.queued] + [e[0] for e in slot.raws]

            def raw_parked(slot, kinds) -> list:
                return [e[0] for e in slot.raws if not e[0].done() and e[2] in kinds]

            RAW_READS = ('recvData', 'recvEof', 'recvEofQuiet', 'recvFile')
            RAW_SENDS = ('sendData', 'sendFile')

            def raw_reading(slot) -> bool:
                """a raw read of the slot is parked in the stream reader"""
                return any(in_stream_read(t) for t in raw_parked(slot, RAW_READS))

            def in_stream_read(task) -> bool:
                """the task is parked inside StreamReader.read / readexactly (not, e.g., in a listener it notified)"""
                return '_wait_for_data' in [n for n, _ in _frames_of(task)]

            def attempt_send_timer(slot):
                """the send timer of the task that sets the connection up (not of a send / queue_message call)"""
                mine = user_tasks(slot)
                for tm, t, names, selfs in pending_timers(loop):
                    if t in mine or t.done():
                        continue
                    if slot.origin != 'api' and t is not slot.task:
                        continue
                    inner = None
                    for n, sf in zip(names, selfs):
                        if sf is slot.conn and n in ('connect', '_read', '_send', 'disconnect'):
                            inner = n
                    if inner == '_send':
                        return tm
                return None

            def indirect_task(slot):
                for t in asyncio.all_tasks(loop):
                    if t.done() or not (t is slot.task or t.get_name().startswith('indirect-connect-')):
                        continue
                    names = [n for n, _ in _frames_of(t)]
                    if '_make_indirect_connection' in names and 'send_message' not in names:
                        return t
                return None

            def wait_timer(t):
                """the timer of the `asyncio.wait(..., timeout=)` task `t` is parked in"""
                for h in list(loop._scheduled):
                    if h._cancelled:
                        continue
                    if (getattr(h._callback, '__name__', '') == '_release_waiter' and h._args
                            and h._args[0] is getattr(t, '_fut_waiter', None)):
                        return h
                return None

            def ctp_ticket(slot):
                """ticket of the ConnectToPeer request the library sent to the server for this slot's user"""
                rs = [r for r in server.received if isinstance(r, ConnectToPeer.Request) and r.username == f'user{slot.idx}']
                return rs[-1].ticket if rs else None

            SUB_API = ('queue', 'send', 'disconnect')
            SUB_ENV = ('eof', 'reset', 'frame', 'partialEof')

            def enc(slot, data: bytes) -> bytes:
                return obfuscation.encode(data) if (slot.conn is not None and slot.conn.obfuscated) else data

            def enabled(slot, name, arg) -> bool:
                c = slot.conn
                parked_open = parked_key(slot) is not None and slot.task is not None and not slot.task.done()
                if name in ('connectOk', 'connectFail'):
                    return parked_open
                if name == 'connectTimeout':
                    return parked_open and c is not None and find_timer(
                        loop, c, 'connect', None if slot.origin == 'api' else slot.task) is not None
                if name == 'burst':
                    subs = arg
                    if not subs or c is None:
                        return False
                    gone = False
                    for sub in subs:
                        if sub[0] not in SUB_API + SUB_ENV:
                            raise ValueError(sub)
                        if not enabled(slot, sub[0], sub[1] if len(sub) > 1 else None):
                            return False
                        if sub[0] in SUB_ENV:
                            if gone:
                                return False          # the remote end does nothing after it closed / reset the socket
                            gone = sub[0] != 'frame'
                    return True
                if name == 'cannotConnect':
                    w_ = fn.lib_writers.get(SERVER_ADDR)
                    return slot.origin == 'api' and ctp_ticket(slot) is not None and w_ is not None and not w_._closed
                if name == 'indirectTimeout':
                    t_ = indirect_task(slot) if slot.origin == 'api' else None
                    return t_ is not None and wait_timer(t_) is not None
                if name == 'cancelAttempt':
                    return slot.origin != 'incoming' and slot.task is not None and not slot.task.done()
                at = accept_task(slot)
                awaiting = (slot.origin == 'incoming' and at is not None and not at.done() and c is not None
                            and c.connection_state == PeerConnectionState.AWAITING_INIT and sock_open(slot)
                            and in_stream_read(at))     # (parked in the read, not in a listener)
                reader = (c is not None and c._reader_task is not None and not c._reader_task.done() and sock_open(slot)
                          and in_stream_read(c._reader_task))
                if name == 'release':
                    return gate.is_parked(slot.idx, arg)
                if name in ('firstFrame', 'frame', 'partialEof', 'eof', 'reset', 'data', 'hangup') and slot.remote_closed:
                    return False              # the remote end is gone: it sends / closes nothing any more
                if name == 'hangup':
                    # the remote end can always close / reset its side of a socket that exists (also one the library has
                    # closed already, and one nobody reads from)
                    if arg not in ('eof', 'reset'):
                        raise ValueError(arg)
                    return libw(slot) is not None and slot.origin != 'api'
                if name == 'firstFrame':
                    return awaiting
                if name == 'frame':
                    return reader
                rawr = c is not None and sock_open(slot) and raw_reading(slot)
                if name == 'data':
                    return rawr               # raw bytes for a parked receive_data / receive_file / receive_until_eof
                if name == 'partialEof':
                    return reader or awaiting
                if name == 'eof':
                    return reader or awaiting or rawr
                if name == 'readTimeout':
                    return (reader or awaiting or rawr) and find_timer(loop, c, 'read') is not None
                w = libw(slot)
                if name in RAW_SENDS or name in RAW_READS:
                    # the raw data paths of a file connection (what the transfer code calls once the connection is
                    # initialised); one parked call of each direction at a time
                    if c is None or c.state == ConnectionState.UNINITIALIZED or getattr(c, 'connection_type', '') != 'F':
                        return False
                    if slot.origin == 'incoming' and c.connection_state == PeerConnectionState.AWAITING_INIT:
                        return False
                    if slot.task is not None and not slot.task.done():
                        return False
                    if name in RAW_READS:
                        return not raw_parked(slot, RAW_READS)
                    return not raw_parked(slot, RAW_SENDS) and not (arg == 'block' and w is not None and w.drain_parked())
                if name == 'unstall':
                    return w is not None and w.stall and not w._closed
                if name == 'reset':
                    if not sock_open(slot):
                        return False
                    if reader or awaiting or rawr:
                        return True
                    if w is None or not w.drain_parked():
                        return False
                    # a direct send and a queued send both parked, nobody else: which one wakes first is not modelled
                    return not (user_send_parked(slot) and queue_parked(slot) and attempt_send_timer(slot) is None)
                if name == 'disconnect':
                    return c is not None and (arg != 'frame' or reader)
                if name == 'queue':
                    if c is None or c.state == ConnectionState.UNINITIALIZED:
                        return False
                    if arg == 'block' and queue_parked(slot):
                        return False
                    return True
                if name == 'queueTimeout':
                    return any(not t.done() and find_timer(loop, c, 'send', t) is not None for t, _ in slot.queued)
                if name == 'closeDone':
                    if arg == 'timeout':
                        return w is not None and w.close_parked() and find_timer(loop, c, 'close') is not None
                    return w is not None and w.close_parked()
                if name == 'send':
                    if c is None or c.state == ConnectionState.UNINITIALIZED:
                        return False
                    if arg == 'block' and user_send_parked(slot):
                        return False
                    return True
                if name == 'drainOk':
                    return w is not None and w.drain_parked()
                if name == 'sendTimeout':
                    if arg:
                        if slot.origin == 'api':
                            return c is not None and attempt_send_timer(slot) is not None
                        return (slot.task is not None and not slot.task.done()
                                and find_timer(loop, c, 'send', slot.task) is not None)
                    return any(not t.done() and find_timer(loop, c, 'send', t) is not None for t in direct_sends(slot))
                if name == 'restart':
                    return (slot.origin == 'server' and c is not None and c.state == ConnectionState.CLOSED
                            and (slot.task is None or slot.task.done()) and not (w is not None and w.close_parked()))
                raise ValueError(name)

            def do_new(origin, typF, slow, obf):
                slot = _Slot(len(slots), origin, typF, slow, obf)
                slots.append(slot)
                typ = 'F' if typF else 'P'
                host, user = f'10.0.{slot.idx}.1', f'user{slot.idx}'

                def addresses(clear, oport):
                    """register the advertised addresses of this peer; returns the one the unchanged code dials"""
                    slot.keys = [(host, p_) for p_ in (clear, oport) if p_]
                    for k in slot.keys:
                        by_key[k] = slot
                        fn.writer_setup[k] = setup_for(slot)
                    slot.key = (host, select(clear, oport))
                    return slot.key

                # which ports the peer advertises: obf 0/1 = one port (2000+idx, announced as regular / obfuscated),
                # 2 = both, 3 = regular only, 4 = obfuscated only (3/4: only for looked-up addresses)
                if obf == 2:
                    ports = (2000 + slot.idx, 3000 + slot.idx)
                elif obf in (1, 4):
                    ports = (0, 2000 + slot.idx)
                else:
                    ports = (2000 + slot.idx, 0)
                if origin in ('direct', 'api'):
                    addresses(*ports)
                    entry = net._make_direct_connection if origin == 'direct' else net.create_peer_connection
                    args = (slot.ticket, user, typ) if origin == 'direct' else (user, typ)
                    if obf >= 2:
                        lookup[user] = (host,) + ports
                        slot.task = asyncio.ensure_future(entry(*args))
                    else:
                        slot.task = asyncio.ensure_future(entry(*args, host, slot.key[1], bool(obf)))
                elif origin == 'back':
                    addresses(*ports)
                    before = list(net._create_peer_connection_tasks)
                    server.send(ConnectToPeer.Response(
                        user, typ, host, ports[0], slot.ticket, False,
                        obfuscated_port_amount=1 if ports[1] else 0, obfuscated_port=ports[1]))
                    slot._before = before
                elif origin == 'incoming':
                    slot.key = (f'10.9.{slot.idx}.1', 4000 + slot.idx)
                    slot.keys = [slot.key]
                    by_key[slot.key] = slot
                    fn.writer_setup[slot.key] = setup_for(slot)
                    fn.incoming(OBFS_PORT if obf else CLEAR_PORT, slot.key)
                elif origin == 'server':
                    slot.key = SERVER_ADDR
                    slot.keys = [slot.key]
                    fn.writer_setup[slot.key] = setup_for(slot)
                    slot.conn = net.server_connection
                    slot.task = asyncio.ensure_future(net.connect_server())
                else:
                    raise ValueError(origin)
                return slot

            def do_op(slot, name, arg):
                c = slot.conn
                w = libw(slot)
                if name == 'connectOk':
                    slot.cfg = arg
                    fn.release_connect(parked_key(slot), 'ok')
                elif name == 'connectFail':
                    # 'overflow': what open_connection does for a port > 65535 (not an OSError)
                    fn.release_connect(parked_key(slot), 'overflow' if arg == 'overflow' else 'refuse')
                elif name == 'connectTimeout':
                    assert fire_timer(loop, c, 'connect', None if slot.origin == 'api' else slot.task)
                elif name == 'burst':
                    for sub in arg:
                        do_op(slot, sub[0], sub[1] if len(sub) > 1 else None)
                elif name == 'cannotConnect':
                    server.send(CannotConnect.Response(ctp_ticket(slot)))
                elif name == 'indirectTimeout':
                    h = wait_timer(indirect_task(slot))
                    cb, args = h._callback, tuple(h._args)
                    h.cancel()
                    loop.call_soon(cb, *args)
                elif name == 'cancelAttempt':
                    slot.task.cancel()
                elif name == 'firstFrame':
                    rw = libw(slot).peer
                    if arg in ('initP', 'initF', 'initD', 'initX'):
                        # (initD: a distributed connection, initX: a connection type nobody knows — monitor only)
                        data = PeerInit.Request(f'peer{slot.idx}', arg[-1], 0).serialize()
                    elif arg in ('pierceP', 'pierceF'):
                        tk = 500 + slot.idx
                        f = PeerFuture(tk, f'peer{slot.idx}', arg[-1])
                        f.add_done_callback(partial(net._remove_connection_future, tk))
                        net._expected_connection_futures[tk] = f
                        data = PeerPierceFirewall.Request(tk).serialize()
                    elif arg == 'pierceUnknown':
                        data = PeerPierceFirewall.Request(999999).serialize()
                    elif arg == 'pierceApi':
                        # the peer answers the ConnectToPeer request of the newest `create_peer_connection` call
                        apis = [ctp_ticket(s_) for s_ in slots if s_.origin == 'api']
                        apis = [t_ for t_ in apis if t_ is not None]
                        data = PeerPierceFirewall.Request(apis[-1] if apis else 999998).serialize()
                    elif arg in UNDECODABLE_FIRST:
                        data = _undecodable_first(arg, PeerInit.Request(f'peer{slot.idx}', 'P', 0).serialize(),
                                                  PeerPierceFirewall.Request(500 + slot.idx).serialize())
                    else:
                        raise ValueError(arg)
                    slot.first = arg
                    rw.write(enc(slot, data))
                elif name == 'frame':
                    rw = libw(slot).peer
                    if slot.origin == 'server':
                        data = (GetUserStatus.Response('x', 1, False).serialize() if arg
                                else struct.pack('<II', 4, 0xFFFF))
                    else:
                        data = PeerSharesRequest.Request().serialize() if arg else struct.pack('<II', 4, 0xFFFF)
                    rw.write(enc(slot, data))
                elif name == 'partialEof':
                    rw = libw(slot).peer
                    rw.write(b'\x05\x00')
                    rw.close()
                    slot.remote_closed = True
                elif name == 'eof':
                    libw(slot).peer.close()
                    slot.remote_closed = True
                elif name == 'reset':
                    libw(slot).peer.reset()
                    slot.remote_closed = True
                elif name == 'hangup':
                    rw = libw(slot).peer
                    if arg == 'eof':
                        rw.close()
                    else:
                        rw.reset()
                    slot.remote_closed = True
                    slot.hung = arg
                elif name == 'readTimeout':
                    assert fire_timer(loop, c, 'read')
                elif name == 'disconnect':
                    reason = CloseReason[arg] if isinstance(arg, str) and arg in CloseReason.__members__ \
                        else CloseReason.REQUESTED
                    slot._keep = getattr(slot, '_keep', []) + [asyncio.ensure_future(c.disconnect(reason))]
                    if arg == 'frame':
                        # a complete frame reaches the socket in the same loop iteration, behind the disconnect call
                        data = (GetUserStatus.Response('x', 1, False).serialize() if slot.origin == 'server'
                                else PeerSharesRequest.Request().serialize())
                        libw(slot).peer.write(enc(slot, data))
                elif name == 'closeDone':
                    if arg == 'timeout':
                        assert fire_timer(loop, c, 'close')
                    elif arg == 'raise':
                        # connection_lost(exc): wait_closed() raises what the transport died of
                        if w.closing_stalled:
                            w.stall = False
                            w.closing_stalled = False
                            w.reset()
                        w.release_close(ConnectionResetError('connection lost (fake)'))
                    elif w.closing_stalled:
                        w.unstall()
                    else:
                        w.release_close()
                elif name == 'unstall':
                    w.unstall()
                elif name == 'release':
                    assert gate.release(slot.idx, arg)
                elif name == 'data':
                    libw(slot).peer.write(b'\x07' * 16)
                elif name in RAW_SENDS or name in RAW_READS:
                    k = raw_id[0] = raw_id[0] + 1
                    if name in RAW_SENDS and w is not None and not w._closed:
                        if arg == 'block':
                            w.drain_block = True
                        elif arg == 'fail':
                            w.fail_after = len(w.sent)
                    if name == 'sendData':
                        coro = c.send_data(b'D' * 32)
                    elif name == 'sendFile':
                        coro = c.send_file(_FakeFile([b'F' * 16, b'F' * 16]))
                    elif name == 'recvData':
                        coro = c.receive_data(64)
                    elif name == 'recvFile':
                        ff = _FakeFile([])
                        coro = c.receive_file(ff, 32)
                    else:
                        coro = c.receive_until_eof(raise_exception=(name == 'recvEof'))
                    mark(slot.idx, f'call:raw:{k}:{name}')
                    t = asyncio.ensure_future(coro)
                    slot.raws.append([t, False, name, k])

                    ff = ff if name == 'recvFile' else None

                    def outcome(t, name=name, ff=ff):
                        if t.cancelled():
                            return 'cancelled'
                        if t.exception() is not None:
                            return 'err' if isinstance(t.exception(), (ConnectionWriteError, ConnectionReadError)) \
                                else 'exc:' + type(t.exception()).__name__
                        if name in RAW_SENDS:
                            return 'ret'
                        if name == 'recvFile':
                            return 'data' if ff.written else 'none'
                        return 'data' if t.result() else 'none'
                    slot.raws[-1].append(outcome)
                    t.add_done_callback(lambda t, i=slot.idx, k=k, outcome=outcome: mark(i, f'done:raw:{k}:{outcome(t)}'))
                elif name == 'send':
                    if w is not None and not w._closed:
                        if arg == 'block':
                            w.drain_block = True
                        elif arg == 'fail':
                            w.fail_after = len(w.sent)
                    msg = Ping.Request() if slot.origin == 'server' else PeerSharesRequest.Request()
                    slot.sends.append([asyncio.ensure_future(c.send_message(msg)), False])
                elif name == 'queue':
                    if w is not None and not w._closed:
                        if arg == 'block':
                            w.drain_block = True
                        elif arg == 'fail':
                            w.fail_after = len(w.sent)
                    msg = Ping.Request() if slot.origin == 'server' else PeerSharesRequest.Request()
                    slot.queued.append([c.queue_message(msg), False])
                elif name == 'queueTimeout':
                    t = next(t for t, _ in slot.queued if not t.done() and find_timer(loop, c, 'send', t) is not None)
                    assert fire_timer(loop, c, 'send', t)
                elif name == 'drainOk':
                    w.release_drain()
                elif name == 'sendTimeout':
                    if arg and slot.origin == 'api':
                        attempt_send_timer(slot).reschedule(loop.time())
                    elif arg:
                        assert fire_timer(loop, c, 'send', slot.task)
                    else:
                        t = next(t for t in direct_sends(slot) if not t.done() and find_timer(loop, c, 'send', t) is not None)
                        assert fire_timer(loop, c, 'send', t)
                elif name == 'restart':
                    slot.task = asyncio.ensure_future(net.connect_server())
                    slot.task_reported = False
                    slot.remote_closed = False
                    slot.hung = None
                else:
                    raise ValueError(name)

            def after_op(slot, name, arg):
                w = libw(slot)
                if w is not None:
                    w.drain_block = False          # only the calls that are parked now stay parked
                if slot.origin == 'back' and slot.task is None:
                    new = [t for t in net._create_peer_connection_tasks if t not in slot._before]
                    slot.task = new[0] if new else None
                    if slot.task is None:
                        # the task may already be finished and removed; cannot happen: it parks in open_connection
                        raise RuntimeError('connect-back task not found')
                if slot.origin == 'server' and slot.task is not None and slot.task.done() and not slot.task_reported:
                    # what client.py:212 does after a successful connect
                    if not slot.task.cancelled() and slot.task.exception() is None:
                        net.server_connection.start_reader_task()
                        if not srv_tasks or srv_tasks[-1].done():
                            srv_tasks.append(asyncio.ensure_future(server.handler(*fn.rem[SERVER_ADDR])))

            def results(slot) -> list:
                res = []
                if slot.task is not None and slot.task.done() and not slot.task_reported:
                    slot.task_reported = True
                    if slot.task.cancelled():
                        res.append('att:cancelled')
                    elif slot.task.exception() is not None:
                        res.append('att:fail')
                        slot.att_exc = type(slot.task.exception()).__name__
                    else:
                        res.append('att:ok')
                for ent in slot.sends:
                    t, rep = ent
                    if t.done() and not rep:
                        ent[1] = True
                        if t.cancelled():
                            res.append('send:cancelled')
                        elif t.exception() is None:
                            res.append('send:ret')
                        elif isinstance(t.exception(), ConnectionWriteError):
                            res.append('send:err')
                        else:
                            res.append('send:exc:' + type(t.exception()).__name__)
                for ent in slot.queued:
                    t, rep_ = ent
                    if t.done() and not rep_:
                        ent[1] = True
                        if t.cancelled():
                            res.append('q:cancelled')
                        elif t.exception() is None:
                            res.append('q:ret')
                        elif isinstance(t.exception(), ConnectionWriteError):
                            res.append('q:err')
                        else:
                            res.append('q:exc:' + type(t.exception()).__name__)
                for ent in slot.raws:
                    t = ent[0]
                    if t.done() and not ent[1]:
                        ent[1] = True
                        out = ent[4](t)
                        if ent[2] in RAW_SENDS:
                            # a raw send is a direct send: same tokens as send_message (ret / err)
                            res.append('send:' + out)
                        elif out == 'data':
                            res.append('recv:data')     # (a raw read that ends without data is not part of the line)
                res += slot.acts
                slot.acts = []
                ccs = [r for r in server.received if isinstance(r, CannotConnect.Request)]
                for r in ccs[seen_cc[0]:]:
                    res.append('cc' if r.ticket == slot.ticket else f'cc?{r.ticket}')
                seen_cc[0] = len(ccs)
                return sorted(res)

            def snapshot(slot) -> tuple[str, dict]:
                if slot is None:
                    # Network.disconnect(): events of every connection, grouped by connection (ascending)
                    ev = [tok for s in slots for (i, tok) in log if i == s.idx]
                    stray = [(i, tok) for (i, tok) in log if not isinstance(i, int) and i not in ('S', 'L')]
                    del log[:]
                    res = sorted(r for s in slots for r in results(s))
                else:
                    ev = [tok for (i, tok) in log if i == slot.idx]
                    stray = [(i, tok) for (i, tok) in log if i != slot.idx and i not in ('S', 'L')]
                    del log[:]
                    res = results(slot)
                reg = []
                for c in net.peer_connections:
                    reg.append(idx_of(c))
                reg_s = sorted(reg, key=str)
                st = [(s.conn.state.name if s.conn is not None else 'UNINITIALIZED') for s in slots]
                op = ['1' if sock_open(s) else '0' for s in slots]
                line = (f"ev={','.join(ev)} res={','.join(res)} reg={','.join(str(x) for x in reg_s)} "
                        f"st={','.join(st)} open={','.join(op)}")
                if stray:
                    line += f' STRAY={stray}'
                # facts for the monitor, taken from the harness' own view of sockets and tasks: one entry per scenario
                # connection and one per further connection OBJECT that ever reported a state or sits in the registry
                facts = {'reg': [str(x) for x in reg_s], 'conns': {}}

                def owned(w, conn):
                    """the socket was opened by `conn` (or by nobody the fake net could name)"""
                    for a in fn.attempt_log + fn.incoming_log:
                        if a['writer'] is w:
                            return a['owner'] is None or a['owner'] is conn
                    return True

                def obj_view(conn):
                    ws = fn.writers_of(conn) if conn is not None else []
                    # a task that is inside disconnect() / connect() of this connection and waits for a listener of the
                    # CLOSING / CONNECTING notification it made: the close / the attempt is still in progress
                    held = {e[1] for e in gate.parked if conn is not None and not e[2].done()
                            and objs.get(id(conn), [None, None])[1] == e[0]}
                    return (any((not w._closed) or w.close_parked() for w in ws) or 'CLOSING' in held,
                            bool(conn is not None and fn.opening_by(conn)) or 'CONNECTING' in held)
                for s in slots:
                    w = libw(s)
                    if w is not None and s.conn is not None and not owned(w, s.conn):
                        w = None              # the newest socket to this address belongs to another object
                    o_open, o_opening = obj_view(s.conn)
                    # `hangup`: the remote end is gone.  Nothing is PENDING when no close / no write of this connection
                    # is parked and no listener of one of its notifications is suspended; the library itself reads from
                    # every connection but an initialised file connection (the transfer code reads / writes those)
                    lw = libw(s)
                    pending = bool(lw is not None and (lw.close_parked() or lw.drain_parked() or lw.closing_stalled)) \
                        or any(e[0] == s.idx and not e[2].done() for e in gate.parked)
                    is_file = s.origin == 'api' or (s.first in ('initF', 'pierceF', 'pierceApi') if s.origin == 'incoming'
                                                    else bool(s.typF))
                    # (a connect-back task the SCHEDULE cancelled while it was writing its init message leaves the
                    # connection CONNECTED and registered without a reader; the library cancels these tasks only in
                    # Network.disconnect(), which closes every registered connection right after: not judged either)
                    is_file = is_file or (s.origin == 'back' and s.task is not None and s.task.cancelled())
                    facts['conns'][str(s.idx)] = {
                        'origin': s.origin,
                        'open': bool(o_open or (w is not None and ((not w._closed) or w.close_parked()))),
                        'hung': s.hung,
                        'gone': bool(s.hung and not pending and not is_file),
                        'ended_by_remote': bool(s.remote_closed and not s.hung and not (w is not None and w.close_parked())
                                                and not gate.is_parked(s.idx, 'CLOSING')),
                        'opening': bool(o_opening or (s.conn is None and parked_key(s) is not None
                                                      and s.task is not None and not s.task.done())),
                        'state': s.conn.state.name if s.conn is not None else None,
                    }
                for conn, label, origin in list(objs.values()):
                    if str(label) in facts['conns']:
                        continue
                    o_open, o_opening = obj_view(conn)
                    facts['conns'][str(label)] = {'origin': origin, 'open': o_open, 'ended_by_remote': False,
                                                  'opening': o_opening, 'state': conn.state.name}
                return line, facts

            net_tasks: list = []

            def new_enabled(origin, obf) -> bool:
                if origin == 'incoming':
                    return (OBFS_PORT if obf else CLEAR_PORT) in fn.listeners
                if origin == 'back':
                    w = fn.lib_writers.get(SERVER_ADDR)
                    rt = net.server_connection._reader_task
                    return w is not None and not w._closed and rt is not None and not rt.done()
                if origin == 'server':
                    return not any(s_.origin == 'server' for s_ in slots)
                if origin == 'api' or obf >= 2:
                    # needs the server (address look-up / ConnectToPeer request)
                    w = fn.lib_writers.get(SERVER_ADDR)
                    rt = net.server_connection._reader_task
                    return (not case.get('server') and w is not None and not w._closed and rt is not None
                            and not rt.done())
                return True

            executed, lines, facts_l, skipped = [], [], [], []
            for op in case['ops']:
                opno[0] = len(executed)
                if op[0] == 'gate':
                    # from now on the application listener suspends / acts at these notifications (harness only)
                    gate.armed = {(g[0], g[1]): g[2] for g in op[1]}
                    slot = None
                elif op[0] == 'new':
                    _, origin, typF, slow, obf = op
                    if not new_enabled(origin, obf):
                        skipped.append(op)
                        continue
                    slot = do_new(origin, typF, slow, obf)
                    await settle()
                    after_op(slot, 'new', None)
                    await settle()
                elif op[0] == 'net':
                    # Network.disconnect(), optionally with a connection that comes into existence in the same loop
                    # iteration, behind the call (accepted by the listening socket / requested by another task)
                    plan = []
                    for s_ in slots:
                        if s_.origin == 'back' and s_.task is not None and not s_.task.done():
                            plan.append([s_.idx, 'cancelAttempt'])
                        if (s_.origin == 'server' and s_.conn is not None) or \
                                (s_.conn is not None and any(c is s_.conn for c in net.peer_connections)):
                            plan.append([s_.idx, 'disconnect'])
                    if len(op) > 2 and isinstance(op[2], list):
                        extra = op[3] if len(op) > 3 else None        # an executed op being replayed: [.., plan, new?]
                    else:
                        extra = op[2:] if len(op) > 2 else None
                    if extra is not None and not new_enabled(extra[0], extra[3]):
                        extra = None
                    if not plan and extra is None:
                        skipped.append(op)
                        continue
                    net_tasks.append(asyncio.ensure_future(net.disconnect()))
                    nslot = do_new(*extra) if extra is not None else None
                    await settle()
                    if nslot is not None:
                        after_op(nslot, 'new', None)
                        await settle()
                    slot = None
                    op = ['net', 'disconnect', plan] + ([list(extra)] if extra is not None else [])
                else:
                    _, i, name = op[:3]
                    arg = op[3] if len(op) > 3 else None
                    if i >= len(slots) or not enabled(slots[i], name, arg):
                        skipped.append(op)
                        continue
                    slot = slots[i]
                    n = arg if name == 'disconnect' and isinstance(arg, int) else 1
                    for _ in range(n):
                        do_op(slot, name, arg)
                    await settle()
                    after_op(slot, name, arg)
                    await settle()
                line, facts = snapshot(slot)
                executed.append(op)
                lines.append(line)
                facts_l.append(facts)
            keep = (obs, gate, bus, net, srv_tasks, net_tasks)  # noqa: F841  (strong refs until here)
            return {'executed': executed, 'lines': lines, 'facts': facts_l, 'skipped': skipped, 'full': list(full),
                    'gate': [list(e) for e in gate.log],
                    'hang': hang['hit'], 'sites': sorted(audit.sites),
                    'loop_exceptions': [e for e in loop.exceptions if e.get('type') not in (None, 'CancelledError')]}
        finally:
            try:
                signal.setitimer(signal.ITIMER_PROF, 0)
                if old_prof is not None:
                    signal.signal(signal.SIGPROF, old_prof)
            except ValueError:
                pass
            fn.uninstall()
            audit.close()
            try:
                bus._events.clear()      # drop the bus' weak references now, not at interpreter exit
            except Exception:
                pass

    logging.disable(logging.CRITICAL)      # the library logs every scripted failure; nothing here reads the log
    try:
        res, _loop = simloop.run(main)
    finally:
        logging.disable(logging.NOTSET)
    return res


# --------------------------------------------------------------------------------------------
# model side
# --------------------------------------------------------------------------------------------

UNMODELLED_OPS = ('sendFile', 'recvFile', 'recvEof', 'recvEofQuiet', 'unstall', 'cannotConnect', 'indirectTimeout',
                  'hangup')

# complete first frames of an accepted connection that are no peer-init message: the model's `undecodable`
UNDECODABLE_FIRST = ('undecodable', 'badCode2', 'badCodeBody', 'initCut', 'pierceCut', 'emptyFrame')


def _undecodable_first(kind: str, init: bytes, pierce: bytes) -> bytes:
    """a COMPLETE frame (length prefix = what follows) that does not deserialize as PeerInit / PeerPierceFirewall;
    `init` / `pierce` = well-formed messages to cut"""
    if kind == 'undecodable':
        body = b'\x63'                                  # unknown init code, no body
    elif kind == 'badCode2':
        body = b'\x02'                                  # the first code that is not an init message
    elif kind == 'badCodeBody':
        body = b'\xc8' + b'\x07\x00\x00\x00garbage!'    # unknown code with a body
    elif kind == 'initCut':
        body = init[4:len(init) - 6]                    # PeerInit: type string and ticket cut off
    elif kind == 'pierceCut':
        body = pierce[4:6]                              # PeerPierceFirewall: the code and one byte of the ticket
    elif kind == 'emptyFrame':
        body = b''                                      # length 0: not even a code
    else:
        raise ValueError(kind)
    return struct.pack('<I', len(body)) + body


def _model_groups(case: dict, io: dict):
    """The driver lines of a case, one group per executed op: the op itself (fine-grained: it stops at the first state
    notification) followed by one line per thing the application listener did during that op, in order — `noteA` /
    `noteC` when it returned (at once, or released by the schedule), `parkA` / `parkC` when it suspended, and the call
    itself when it acted from inside the notification.  None = real code + monitor only (no model of these ops)."""
    if (case.get('cfg') or {}).get('monitor_only'):
        return None
    executed = io['executed']
    notes: dict = {}
    for n, lab, state, kind in io.get('gate', []):
        if lab == 'S':
            continue                  # the server connection of a scenario that does not exercise it (never held)
        if not isinstance(lab, int):
            return None               # a connection object the scenario did not ask for
        notes.setdefault(n, []).append((lab, state, kind))
    armed = False
    parked: dict = {}                 # slot -> number of listener invocations that are suspended
    cfg_of: dict = {}                 # how the init write of slot i behaves
    origin_of: list = []
    groups = []
    for n, op in enumerate(executed):
        ls: list = []
        skip_notes = False
        if op[0] == 'gate':
            armed = bool(op[1])
        elif op[0] == 'new':
            _, origin, typF, slow, _obf = op
            if slow not in (0, 1) or origin == 'api':
                return None
            origin_of.append(origin)
            ls.append(f'new {origin} {int(bool(typF))} {int(slow)}')
        elif op[0] == 'net':
            # Network.disconnect() = cancel the running connect-back tasks, then disconnect() on the server connection
            # and on every connection registered at that moment; a connection created behind the call comes last
            ls += [f'at {i} {what}' for i, what in op[2]]
            if len(op) > 3:
                origin, typF, slow, _obf = op[3]
                if slow not in (0, 1):
                    return None
                origin_of.append(origin)
                ls.append(f'new {origin} {int(bool(typF))} {int(slow)}')
        else:
            _, i, name = op[:3]
            arg = op[3] if len(op) > 3 else None
            if name in UNMODELLED_OPS or (name == 'closeDone' and arg == 'raise') or \
                    (name == 'firstFrame' and arg in ('pierceApi', 'initD', 'initX')):
                return None
            if name == 'connectOk':
                cfg_of[i] = arg
            if name == 'restart' and parked.get(i):
                return None           # the server connection is connected again while a listener is still busy with the
                #                       previous CLOSED notification: two overlapping lives (C16 covers it; monitor only)
            if name == 'release':
                pass
            elif name == 'burst':
                # calls made in one loop iteration: the tasks they create take their first step in that order, and each
                # runs up to its first real suspension = the calls one after the other, every notification passing
                if armed:
                    return None
                ls += ['a' + _op_line(i, sub[0], sub[1] if len(sub) > 1 else None) for sub in arg]
                skip_notes = True
            else:
                ls += _op_line(i, name, arg).split('\n')
        if not skip_notes:
            for lab, state, kind in notes.get(n, []):
                x = 'A' if state in ('CONNECTING', 'CONNECTED') else 'C'
                mode = f' {cfg_of.get(lab) or "ok"}' if x == 'A' else ''
                if kind in ('pass', 'resume'):
                    ls.append(f'at {lab} note{x}{mode}')
                    if kind == 'resume':
                        parked[lab] = parked.get(lab, 0) - 1
                elif kind == 'park':
                    ls.append(f'at {lab} park{x}')
                    parked[lab] = parked.get(lab, 0) + 1
                elif kind == 'cancel':
                    parked[lab] = parked.get(lab, 0) - 1
                    # (the op that cancelled the task says what follows)
                elif kind.startswith('act:'):
                    # the call the listener makes from inside the notification (at a CLOSING / CLOSED notification none
                    # of these calls suspends: the listener does not count as suspended).  A disconnect() made from inside
                    # a CONNECTED notification that itself suspends (slow wait_closed, a nested listener that suspends)
                    # turns the task that reported CONNECTED into the closing task: monitor only
                    if kind == 'act:disconnect' and x == 'A':
                        rest = notes.get(n, [])
                        at = rest.index((lab, state, kind))
                        done = next((j for j in range(at + 1, len(rest)) if rest[j] == (lab, state, 'pass')), None)
                        if done is None or any(r[2] == 'park' for r in rest[at + 1:done]):
                            return None
                    ls.append(f'at {lab} ' + {'disconnect': 'disconnect REQUESTED', 'send': 'send ok',
                                              'sendData': 'sendData ok'}[kind[4:]])
                else:
                    raise ValueError(kind)
        if op[0] == 'net':
            # the harness reports the events of a Network.disconnect() grouped by connection: the connections do not
            # interact, so the lines can be grouped the same way (the order per connection is kept)
            newest = len(origin_of) - 1
            ls = sorted(ls, key=lambda l: newest if l.startswith('new ') else int(l.split()[1]))
        groups.append(ls)
    return groups


REASONS = ('UNKNOWN', 'CONNECT_FAILED', 'REQUESTED', 'READ_ERROR', 'WRITE_ERROR', 'TIMEOUT', 'EOF')


def _op_line(i, name, arg) -> str:
    if name == 'disconnect':
        if isinstance(arg, str) and arg in REASONS:
            return f'at {i} disconnect {arg}'
        n = arg if isinstance(arg, int) else 1
        # n concurrent calls issued in the same loop iteration = n calls one after the other
        return f'at {i} disconnect' + f'\nat {i} disconnect' * (n - 1)
    if name in ('closeDone', 'connectFail', 'recvData', 'data'):
        return f'at {i} {name}'
    if name == 'firstFrame' and arg in UNDECODABLE_FIRST:
        return f'at {i} firstFrame undecodable'
    if name in ('frame', 'sendTimeout'):
        return f'at {i} {name} {int(bool(arg))}'
    if arg is not None:
        return f'at {i} {name} {arg}'
    return f'at {i} {name}'


def _merge_lines(group: list[str]) -> str:
    """n model answers of `disconnect n` -> one line (events concatenated, last state)."""
    if len(group) == 1:
        return group[0]
    bad = next((g for g in group if g in ('rejected', 'bad-op')), None)
    if bad is not None:
        return bad
    evs, ress, last = [], [], None
    for g in group:
        parts = dict(p.split('=', 1) for p in g.split(' ') if '=' in p)
        if parts.get('ev'):
            evs.append(parts['ev'])
        if parts.get('res'):
            ress += parts['res'].split(',')
        last = parts
    if last is None:
        return group[-1]
    return (f"ev={','.join(evs)} res={','.join(sorted(ress))} reg={last.get('reg', '')} st={last.get('st', '')} "
            f"open={last.get('open', '')}")


# --------------------------------------------------------------------------------------------
# monitor: the property statement on the implementation trace (independent of the model)
# --------------------------------------------------------------------------------------------

def _monitor(case: dict, impl: dict) -> list[Violation]:
    vs: list[Violation] = []

    def add(sig, what, observed=None, required=None):
        c = {'kind': case.get('kind'), 'server': case.get('server', False), 'ops': impl['executed']}
        if case.get('cfg'):
            c['cfg'] = case['cfg']
        vs.append(Violation(sig, what, c, observed=observed, required=required))

    # one track per connection OBJECT (label): scenario connections and any other object that reported something
    per: dict = {}
    for (opno, i, tok) in impl['full']:
        per.setdefault(str(i), []).append((opno, tok))
    origin_of = {}
    if impl['facts']:
        origin_of = {i: f['origin'] for i, f in impl['facts'][-1]['conns'].items()}
    for i, evs in per.items():
        if i in ('S', 'L'):
            continue              # the server connection of scenarios that do not exercise it; the listening sockets
        is_server = origin_of.get(i) == 'server'
        last = None
        closed_seen = 0
        raw_calls: dict = {}          # id of a raw data call -> (kind, CLOSED had been reported when it was made)
        for (opno, tok) in evs:
            name = tok.split(':')[0]
            if name == 'call' and tok.startswith('call:raw:'):
                _, _, k, kind = tok.split(':')
                raw_calls[k] = (kind, bool(closed_seen))
            elif name == 'done' and tok.startswith('done:raw:'):
                k, out = tok.split(':')[2], tok.split(':', 3)[3]
                kind, after = raw_calls.get(k, (None, False))
                # (a raw send made after CLOSED is judged like every send: by the bytes that reach the transport — `wrote`)
                if after and kind not in ('sendData', 'sendFile') and out == 'data':
                    add('C10-data-after-closed', f'connection {i}: {kind}() called after CLOSED had been reported returned '
                        'data of the connection', [t for _, t in evs], 'nothing of the connection is delivered after CLOSED')
            if name in RANK:
                if last is not None and RANK[name] <= RANK[last]:
                    if is_server and last == 'CLOSED' and name == 'CONNECTING':
                        closed_seen = 0
                    else:
                        sig = ('C10-state-after-closed' if last == 'CLOSED' else 'C10-state-order')
                        add(sig, f'connection {i}: {name} reported after {last}', [t for _, t in evs],
                            'reported states only move forward (uninitialised, connecting, connected, closing, closed)')
                if name == 'CLOSED':
                    closed_seen += 1
                    if closed_seen > 1:
                        add('C10-closed-twice', f'connection {i}: CLOSED reported more than once', [t for _, t in evs])
                last = name
            elif tok == 'msg' and closed_seen:          # (closed_seen is reset when the server connection restarts)
                add('C10-delivery-after-closed', f'connection {i}: a message was delivered after CLOSED',
                    [t for _, t in evs], 'no MessageReceivedEvent after CLOSED')
            elif tok == 'wrote' and closed_seen:
                add('C10-send-after-closed', f'connection {i}: bytes were sent after CLOSED', [t for _, t in evs],
                    'no send succeeds after CLOSED')
    # registry at every quiescent point
    for n, facts in enumerate(impl['facts']):
        reg = set(facts['reg'])
        for i, f in facts['conns'].items():
            if f['origin'] == 'server' or f['state'] is None:
                continue
            last = None
            for (opno, tok) in per.get(i, []):
                if opno <= n and tok.split(':')[0] in RANK:
                    last = tok.split(':')[0]
            if f.get('hung') and not f.get('gone'):
                # the remote end hung up on a connection the library is not reading from (an initialised file
                # connection: the transfer code reads / writes it), or a close / a write / a listener of the connection
                # is still pending: not judged at this moment
                continue
            # (`gone`: the remote end hung up and nothing is pending — the library's side of the socket may still be
            # un-closed, but the connection is not open any more)
            want = last != 'CLOSED' and ((f['open'] and not f.get('gone')) or f['opening'])
            have = i in reg
            if want != have:
                what = ('is registered but neither open nor being opened by a running attempt (or already CLOSED)'
                        if have else 'is open / being opened but not registered')
                if have and f.get('gone') and f['open']:
                    what = (f'is registered although the remote end has hung up ({f["hung"]}) and nothing of the '
                            'connection is pending: nobody reads from it, it stays registered for ever')
                add('C10-registry-leak' if have else 'C10-registry-missing',
                    f'after op #{n} {impl["executed"][n]}: connection {i} {what}',
                    {'registered': have, 'last_reported': last, **f}, 'registry = open or opening connections')
    # a connection whose life ended was reported CLOSED
    if impl['facts']:
        facts = impl['facts'][-1]
        for i, f in facts['conns'].items():
            states = [t.split(':')[0] for _, t in per.get(i, []) if t.split(':')[0] in RANK]
            if f.get('hung') and not f.get('gone'):
                continue              # (see above: not judged)
            if states and f.get('gone') and not f['opening'] and states[-1] != 'CLOSED':
                add('C10-never-closed', f'connection {i}: the remote end has hung up ({f["hung"]}), no close / write / '
                    f'listener of the connection is pending, but its last reported state is {states[-1]}', states,
                    'CLOSED is reported for every connection whose life ended')
            elif states and not f['open'] and not f['opening'] and states[-1] != 'CLOSED':
                add('C10-never-closed', f'connection {i} has no socket and no running attempt but its last reported '
                    f'state is {states[-1]}', states, 'CLOSED is reported for every connection whose life ended')
            elif states and f.get('ended_by_remote') and states[-1] != 'CLOSED':
                add('C10-never-closed', f'connection {i}: the remote end closed/reset the socket while the library was '
                    f'reading from (or draining to) it, nothing is pending, but the last reported state is {states[-1]}',
                    states, 'CLOSED is reported for every connection whose life ended')
    if impl.get('hang'):
        add('C10-hang', 'the library spun without ever suspending (no quiescent moment is reached again); the spinning '
            f'task had to be killed by the harness after {HANG_S:.0f} s of CPU time', impl['lines'][-3:],
            'every op is followed by a quiescent moment')
    for e in impl.get('loop_exceptions', []):
        if e.get('type') == '_Hang':
            continue
        add('C10-internal-error', 'exception reported to the loop exception handler', e)
    return vs


# --------------------------------------------------------------------------------------------
# generator
# --------------------------------------------------------------------------------------------

def _grid() -> list[dict]:
    cases = []

    def mk(kind, ops, server=False):
        cases.append({'kind': kind, 'server': server, 'ops': ops})

    tails = [[], [['at', 0, 'disconnect'], ['at', 0, 'send', 'ok']], [['at', 0, 'disconnect', 2]]]

    def closings(slow):
        # what may happen between CLOSING and CLOSED when wait_closed suspends
        if not slow:
            return [[]]
        return [[['at', 0, 'closeDone', 'release']], [['at', 0, 'closeDone', 'timeout']],
                [['at', 0, 'disconnect', 2], ['at', 0, 'send', 'ok'], ['at', 0, 'closeDone', 'release']],
                [['at', 0, 'cancelAttempt'], ['at', 0, 'closeDone', 'release']]]

    established_endings = [
        ('local', [['at', 0, 'disconnect']]),
        ('local2', [['at', 0, 'disconnect', 2]]),
        ('local-frame-behind', [['at', 0, 'disconnect', 'frame']]),
        ('eof', [['at', 0, 'eof']]),
        ('msg-eof', [['at', 0, 'frame', 1], ['at', 0, 'frame', 0], ['at', 0, 'frame', 1], ['at', 0, 'eof']]),
        ('reset', [['at', 0, 'reset']]),
        ('partial', [['at', 0, 'partialEof']]),
        ('read-timeout', [['at', 0, 'readTimeout']]),
        ('send-fail', [['at', 0, 'send', 'ok'], ['at', 0, 'send', 'fail']]),
        ('send-timeout', [['at', 0, 'send', 'block'], ['at', 0, 'sendTimeout', 0]]),
        ('send-drain-then-local', [['at', 0, 'send', 'block'], ['at', 0, 'drainOk'], ['at', 0, 'disconnect']]),
        ('send-parked-local', [['at', 0, 'send', 'block'], ['at', 0, 'disconnect']]),
        ('send-parked-reset', [['at', 0, 'send', 'block'], ['at', 0, 'reset']]),
        ('send-parked-eof', [['at', 0, 'send', 'block'], ['at', 0, 'eof']]),
    ]
    for origin in ('direct', 'back'):
        for typF in (0, 1):
            for obf in (0, 1):
                for slow in (0, 1):
                    new = ['new', origin, typF, slow, obf]
                    base = f'{origin}-{"F" if typF else "P"}{"-obf" if obf else ""}{"-slow" if slow else ""}'
                    for tail in tails:
                        mk(base + ':refused', [new, ['at', 0, 'connectFail']] + tail)
                        mk(base + ':connect-timeout', [new, ['at', 0, 'connectTimeout']] + tail)
                        mk(base + ':cancel-opening', [new, ['at', 0, 'cancelAttempt']] + tail)
                    for late in (['connectOk', 'ok'], ['connectOk', 'fail'], ['connectFail'], ['connectTimeout'],
                                 ['cancelAttempt']):
                        mk(base + ':local-while-opening', [new, ['at', 0, 'send', 'ok'], ['at', 0, 'disconnect'],
                                                           ['at', 0] + late, ['at', 0, 'disconnect']])
                    for cl in closings(slow):
                        mk(base + ':init-write-fails', [new, ['at', 0, 'connectOk', 'fail']] + cl + tails[1])
                        for mid in ([['at', 0, 'sendTimeout', 1]], [['at', 0, 'cancelAttempt']], [['at', 0, 'reset']],
                                    [['at', 0, 'disconnect']], [['at', 0, 'send', 'ok'], ['at', 0, 'disconnect']],
                                    [['at', 0, 'send', 'block'], ['at', 0, 'sendTimeout', 1]],
                                    [['at', 0, 'send', 'block'], ['at', 0, 'sendTimeout', 0]],
                                    [['at', 0, 'send', 'block'], ['at', 0, 'reset']]):
                            mk(base + ':init-drain-parked', [new, ['at', 0, 'connectOk', 'block']] + mid + cl + tails[1])
                    mk(base + ':init-drain-ok', [new, ['at', 0, 'connectOk', 'block'], ['at', 0, 'drainOk'],
                                                  ['at', 0, 'send', 'ok'], ['at', 0, 'disconnect']]
                       + closings(slow)[0] + tails[1])
                    for name, ending in established_endings:
                        if typF and any(o[2] in ('eof', 'frame', 'partialEof', 'readTimeout') or o[-1] == 'frame' for o in ending):
                            continue      # nobody reads an 'F' connection here (the transfer code would)
                        if typF and name in ('reset',):
                            continue
                        for cl in closings(slow):
                            mk(base + ':' + name, [new, ['at', 0, 'connectOk', 'ok']] + ending + cl + tails[1])
    for obf in (0, 1):
        for slow in (0, 1):
            new = ['new', 'incoming', 0, slow, obf]
            base = f'incoming{"-obf" if obf else ""}{"-slow" if slow else ""}'
            for cl in closings(slow):
                for name, ending in [('eof-before-init', [['at', 0, 'eof']]), ('reset-before-init', [['at', 0, 'reset']]),
                                     ('partial-before-init', [['at', 0, 'partialEof']]),
                                     ('timeout-before-init', [['at', 0, 'readTimeout']]),
                                     ('local-before-init', [['at', 0, 'disconnect']]),
                                     ('local2-before-init', [['at', 0, 'disconnect', 2]]),
                                     ('undecodable-init', [['at', 0, 'firstFrame', 'undecodable']]),
                                     ('unknown-code-init', [['at', 0, 'firstFrame', 'badCode2']]),
                                     ('unknown-code-body-init', [['at', 0, 'firstFrame', 'badCodeBody']]),
                                     ('cut-peerinit', [['at', 0, 'firstFrame', 'initCut']]),
                                     ('cut-pierce', [['at', 0, 'firstFrame', 'pierceCut']]),
                                     ('empty-first-frame', [['at', 0, 'firstFrame', 'emptyFrame']]),
                                     ('unknown-ticket', [['at', 0, 'firstFrame', 'pierceUnknown']]),
                                     ('send-fail-before-init', [['at', 0, 'send', 'fail']]),
                                     ('send-timeout-before-init', [['at', 0, 'send', 'block'], ['at', 0, 'sendTimeout', 0]])]:
                    mk(base + ':' + name, [new] + ending + cl + tails[1])
                for first in ('initP', 'initF', 'pierceP', 'pierceF'):
                    for name, ending in established_endings:
                        if first[-1] == 'F' and (name == 'reset' or any(
                                o[2] in ('eof', 'frame', 'partialEof', 'readTimeout') or o[-1] == 'frame' for o in ending)):
                            continue
                        mk(base + f':{first}:{name}', [new, ['at', 0, 'firstFrame', first]] + ending + cl + tails[1])
    # Network.disconnect(): alone, and with a connection that is accepted / requested while it is in progress (in the
    # same loop iteration behind the call, or in the window a slow wait_closed opens)
    behind = [None, ['incoming', 0, 0, 0], ['incoming', 0, 1, 1], ['direct', 0, 0, 0], ['direct', 1, 1, 1]]
    setups = {
        'empty': [],
        'direct-established': [['new', 'direct', 0, 0, 0], ['at', 0, 'connectOk', 'ok']],
        'direct-established-slow': [['new', 'direct', 0, 1, 0], ['at', 0, 'connectOk', 'ok']],
        'direct-opening': [['new', 'direct', 0, 0, 0]],
        'direct-init-parked': [['new', 'direct', 0, 1, 0], ['at', 0, 'connectOk', 'block']],
        'back-opening': [['new', 'back', 0, 0, 0]],
        'back-init-parked-slow': [['new', 'back', 0, 1, 0], ['at', 0, 'connectOk', 'block']],
        'back-closing': [['new', 'back', 0, 1, 0], ['at', 0, 'connectOk', 'fail']],
        'incoming-silent': [['new', 'incoming', 0, 0, 0]],
        'incoming-silent-slow': [['new', 'incoming', 0, 1, 1]],
        'incoming-established-slow': [['new', 'incoming', 0, 1, 0], ['at', 0, 'firstFrame', 'initP'], ['at', 0, 'send', 'block']],
        'two': [['new', 'incoming', 0, 1, 0], ['at', 0, 'firstFrame', 'initP'], ['new', 'direct', 0, 0, 1],
                ['at', 1, 'connectOk', 'ok']],
    }
    for sname, setup in setups.items():
        n0 = sum(1 for o in setup if o[0] == 'new')
        for b in behind:
            ops = list(setup) + [['net', 'disconnect'] + (b if b else [])]
            j = n0                       # index of the connection created behind the call
            if b and b[0] == 'direct':
                ops += [['at', j, 'connectOk', 'ok'], ['at', j, 'frame', 1]]
            if b and b[0] == 'incoming':
                ops += [['at', j, 'firstFrame', 'initP'], ['at', j, 'frame', 1]]
            ops += [['at', k, 'closeDone', 'release'] for k in range(n0)]
            if b:
                ops += [['at', j, 'send', 'ok'], ['net', 'disconnect'], ['at', j, 'closeDone', 'release']]
            ops += [['new', 'incoming', 0, 0, 0], ['new', 'direct', 0, 0, 0], ['at', 0, 'disconnect']]
            mk(f'netdisconnect:{sname}:{"+".join(str(x) for x in b) if b else "alone"}', ops)
        # the window a slow close opens: a connection requested while the gather is parked
        if 'slow' in sname:
            mk(f'netdisconnect:{sname}:window',
               list(setup) + [['net', 'disconnect'], ['new', 'direct', 0, 0, 0], ['at', n0, 'connectOk', 'ok']]
               + [['at', k, 'closeDone', 'release'] for k in range(n0)]
               + [['at', n0, 'frame', 1], ['net', 'disconnect'], ['at', n0, 'send', 'ok']])
    mk('netdisconnect:server', [['new', 'server', 0, 1, 0], ['at', 0, 'connectOk', 'ok'], ['new', 'incoming', 0, 0, 0],
                                ['net', 'disconnect', 'direct', 0, 0, 0], ['at', 0, 'closeDone', 'release'],
                                ['at', 2, 'connectOk', 'ok'], ['at', 0, 'restart'], ['at', 0, 'connectOk', 'ok'],
                                ['net', 'disconnect']], server=True)
    # a connect that fails with something that is not an OSError (a port > 65535 makes open_connection raise
    # OverflowError; an unencodable host name UnicodeError)
    for origin in ('direct', 'back'):
        for slow in (0, 1):
            mk(f'{origin}{"-slow" if slow else ""}:connect-raises-non-oserror',
               [['new', origin, 0, slow, 0], ['at', 0, 'connectFail', 'overflow'], ['at', 0, 'disconnect'],
                ['at', 0, 'send', 'ok']])
            mk(f'{origin}{"-slow" if slow else ""}:local-while-opening:connect-raises-non-oserror',
               [['new', origin, 0, slow, 0], ['at', 0, 'disconnect'], ['at', 0, 'connectFail', 'overflow']])
    mk('server:connect-raises-non-oserror', [['new', 'server', 0, 0, 0], ['at', 0, 'connectFail', 'overflow'],
                                             ['at', 0, 'restart'], ['at', 0, 'connectOk', 'ok']], server=True)
    # the server connection: the only one that may go CLOSED -> CONNECTING
    for slow in (0, 1):
        new = ['new', 'server', 0, slow, 0]
        for cl in closings(slow):
            for name, ending in established_endings:
                mk(f'server{"-slow" if slow else ""}:{name}:restart',
                   [new, ['at', 0, 'connectOk', 'ok']] + ending + cl
                   + [['at', 0, 'restart'], ['at', 0, 'connectOk', 'ok'], ['at', 0, 'frame', 1], ['at', 0, 'send', 'ok'],
                      ['at', 0, 'disconnect']] + closings(slow)[0]
                   + [['at', 0, 'restart'], ['at', 0, 'connectFail'], ['at', 0, 'restart'], ['at', 0, 'cancelAttempt'],
                      ['at', 0, 'restart'], ['at', 0, 'disconnect'], ['at', 0, 'connectOk', 'ok'], ['at', 0, 'restart'],
                      ['at', 0, 'connectTimeout']], server=True)
    return cases


# --------------------------------------------------------------------------------------------
# families added for the classes "output pending when the connection is closed" and "configuration-dependent
# connect paths"
# --------------------------------------------------------------------------------------------

def _queue_grid() -> list[dict]:
    """Messages queued (`queue_message`, fire-and-forget tasks listed in `_queued_messages`) and not yet out — the
    task has not taken its first step, or its drain() is held back — when the connection is closed: by local calls
    with every CloseReason, by EOF / reset / a partial frame / the read timer, by the write error or the send timer of
    the queued send itself or of another send; two closers in every order, the drain released before / between /
    after them; the same with the calls made in ONE loop iteration (burst)."""
    cases = []

    def mk(kind, ops, server=False):
        cases.append({'kind': kind, 'server': server, 'ops': ops})

    local = [['disconnect', r] for r in REASONS] + [['net']]       # ['net'] = Network.disconnect()
    env_reader = [['eof'], ['reset'], ['partialEof'], ['readTimeout']]
    own = [['queueTimeout'], ['send', 'fail'], ['queue', 'fail']]
    second = [['disconnect', 'REQUESTED'], ['disconnect', 'EOF'], ['eof'], ['reset'], ['queueTimeout'], ['disconnect', 2],
              ['net']]
    setups = [
        ('direct-P', lambda slow, obf: [['new', 'direct', 0, slow, obf], ['at', 0, 'connectOk', 'ok']], True, False),
        ('direct-F', lambda slow, obf: [['new', 'direct', 1, slow, obf], ['at', 0, 'connectOk', 'ok']], False, False),
        ('back-P', lambda slow, obf: [['new', 'back', 0, slow, obf], ['at', 0, 'connectOk', 'ok']], True, False),
        ('incoming-P', lambda slow, obf: [['new', 'incoming', 0, slow, obf], ['at', 0, 'firstFrame', 'initP']], True, False),
        ('incoming-awaiting-init', lambda slow, obf: [['new', 'incoming', 0, slow, obf]], True, False),
        ('server', lambda slow, obf: [['new', 'server', 0, slow, 0], ['at', 0, 'connectOk', 'ok']], True, True),
    ]
    pendings = [('q', [['at', 0, 'queue', 'block']]),
                ('q+s', [['at', 0, 'queue', 'block'], ['at', 0, 'send', 'block']]),
                ('s+q', [['at', 0, 'send', 'block'], ['at', 0, 'queue', 'block']])]

    def at(o):
        return ['net', 'disconnect'] if o == ['net'] else ['at', 0] + o

    def closing_tail(slow):
        return ([['at', 0, 'closeDone', 'release']] if slow else []) + \
            [['at', 0, 'disconnect'], ['at', 0, 'send', 'ok'], ['at', 0, 'queue', 'ok']]

    for sname, setup, has_reader, server in setups:
        for slow in (0, 1):
            obf = slow if sname != 'server' else 0          # alternate plain / obfuscated with the close mode
            firsts = local + own + (env_reader if has_reader else [['reset']])
            for pname, pending in pendings:
                base = f'queue:{sname}{"-slow" if slow else ""}:{pname}'
                for c1 in firsts:
                    for c2 in second:
                        if not has_reader and c2 == ['eof']:
                            continue
                        for drain_at in ((0, 1, 2) if c2 in second[:3] else (2,)):
                            seq = [at(c1), at(c2)]
                            seq.insert(drain_at, ['at', 0, 'drainOk'])
                            mk(base + ':' + '+'.join('-'.join(str(x) for x in o) for o in (c1, c2)) + f':drain@{drain_at}',
                               setup(slow, obf) + pending + seq + closing_tail(slow), server)
            # the same within one loop iteration: the queued task has not even started when disconnect() is called
            for m in ('ok', 'block'):
                for r1 in ('REQUESTED', 'UNKNOWN', 'EOF'):
                    for r2 in ('REQUESTED', 'TIMEOUT'):
                        # (a held-back drain holds back every send of the burst: further sends only when all go out)
                        for extra in (([], [['send', 'ok']], [['queue', 'ok']]) if m == 'ok' else ([],)):
                            burst = [['queue', m]] + extra + [['disconnect', r1], ['disconnect', r2]]
                            for after in ([], [['eof']] if has_reader else [['reset']], [['reset']], [['drainOk']],
                                          [['disconnect', 'REQUESTED']]):
                                mk(f'queue:{sname}{"-slow" if slow else ""}:burst:{m}:{r1}+{r2}:'
                                   + '+'.join(o[0] for o in extra + after),
                                   setup(slow, obf) + [['at', 0, 'burst', burst]] + [at(o) for o in after]
                                   + [['at', 0, 'drainOk']] + closing_tail(slow), server)
    # pending output on a connection that is still being opened / whose init message is parked
    for origin in ('direct', 'back'):
        for slow in (0, 1):
            new = ['new', origin, 0, slow, 0]
            for r in ('REQUESTED', 'CONNECT_FAILED'):
                mk(f'queue:{origin}{"-slow" if slow else ""}:while-opening:{r}',
                   [new, ['at', 0, 'queue', 'ok'], ['at', 0, 'disconnect', r], ['at', 0, 'connectOk', 'ok'],
                    ['at', 0, 'queue', 'ok']])
                for then in ([['at', 0, 'drainOk']], [['at', 0, 'reset']], [['at', 0, 'sendTimeout', 1]],
                             [['at', 0, 'cancelAttempt']], [['at', 0, 'queueTimeout']]):
                    mk(f'queue:{origin}{"-slow" if slow else ""}:init-drain-parked:{r}:{then[0][2]}',
                       [new, ['at', 0, 'connectOk', 'block'], ['at', 0, 'queue', 'block'], ['at', 0, 'disconnect', r]]
                       + then + closing_tail(slow))
                    mk(f'queue:{origin}{"-slow" if slow else ""}:init-drain-parked:{then[0][2]}:{r}',
                       [new, ['at', 0, 'connectOk', 'block'], ['at', 0, 'queue', 'block']] + then
                       + [['at', 0, 'disconnect', r]] + closing_tail(slow))
    return cases


# --------------------------------------------------------------------------------------------
# families added for the classes "events completing while a state listener of this connection is suspended" and
# "raw data paths of file connections"
# --------------------------------------------------------------------------------------------

# everything the environment / the application can do to a connection (what is not enabled at that moment is skipped)
MEANWHILE = [
    ['connectOk', 'ok'], ['connectOk', 'block'], ['connectOk', 'fail'], ['connectFail'], ['connectTimeout'],
    ['cancelAttempt'], ['firstFrame', 'initP'], ['firstFrame', 'initF'], ['firstFrame', 'pierceUnknown'],
    ['firstFrame', 'undecodable'], ['frame', 1], ['frame', 0], ['partialEof'], ['eof'], ['reset'], ['readTimeout'],
    ['disconnect', 'REQUESTED'], ['disconnect', 'EOF'], ['disconnect', 2], ['closeDone', 'release'],
    ['closeDone', 'timeout'], ['closeDone', 'raise'], ['send', 'ok'], ['send', 'block'], ['send', 'fail'], ['drainOk'],
    ['sendTimeout', 0], ['sendTimeout', 1], ['queue', 'ok'], ['queue', 'block'], ['queue', 'fail'], ['queueTimeout'],
    ['sendData', 'ok'], ['sendData', 'block'], ['sendData', 'fail'], ['recvData'], ['data'], ['sendFile', 'ok'],
    ['recvFile'], ['recvEof'], ['recvEofQuiet'], ['unstall'], ['restart'], ['NET'],
]
RAW_PROBES = [['sendData', 'ok'], ['recvData'], ['data'], ['sendFile', 'ok'], ['recvFile'], ['data'], ['data'],
              ['recvEofQuiet'], ['data'], ['unstall'], ['sendData', 'ok'], ['recvData'], ['data'], ['recvEof']]
RAW_PROBES_M = [['sendData', 'ok'], ['recvData'], ['data'], ['sendData', 'block'], ['drainOk'], ['recvData'], ['eof'],
                ['sendData', 'ok'], ['recvData']]
STATES = ('CONNECTING', 'CONNECTED', 'CLOSING', 'CLOSED')


def _at(o, i=0):
    return ['net', 'disconnect'] if o == ['NET'] else ['at', i] + o


def _release_all(i=0, rounds=2):
    return [['at', i, 'release', s_] for _ in range(rounds) for s_ in STATES]


def _held_bases() -> list:
    """(name, ops, is F, triggers): states a connection can be in, and the ops (`triggers`) whose handling makes the
    library report a state"""
    out = []
    closers_p = [['disconnect', 'REQUESTED'], ['disconnect', 'EOF'], ['eof'], ['reset'], ['partialEof'], ['readTimeout'],
                 ['send', 'fail'], ['queue', 'fail'], ['NET']]
    closers_f = [['disconnect', 'REQUESTED'], ['sendData', 'fail'], ['NET']]
    for origin in ('direct', 'back'):
        for typF in (0, 1):
            for slow in ((0, 1) if not typF else (0, 1, 2, 3)):
                new = ['new', origin, typF, slow, slow % 2]
                n = f'{origin}-{"F" if typF else "P"}-close{slow}'
                out.append((n + ':none', [], typF, [new]))
                out.append((n + ':opening', [new], typF,
                            [_at(o) for o in (['connectOk', 'ok'], ['connectOk', 'block'], ['connectOk', 'fail'],
                                              ['connectFail'], ['connectTimeout'], ['cancelAttempt'],
                                              ['disconnect', 'REQUESTED'], ['NET'])]))
                out.append((n + ':init-parked', [new, _at(['connectOk', 'block'])], typF,
                            [_at(o) for o in (['disconnect', 'REQUESTED'], ['cancelAttempt'], ['reset'], ['sendTimeout', 1],
                                              ['NET'])]))
                est = [new, _at(['connectOk', 'ok'])]
                if not typF:
                    out.append((n + ':established', est, typF, [_at(o) for o in closers_p]))
                    out.append((n + ':send-parked', est + [_at(['send', 'block'])], typF,
                                [_at(o) for o in (['disconnect', 'REQUESTED'], ['eof'], ['reset'], ['sendTimeout', 0], ['NET'])]))
                    out.append((n + ':queue-parked', est + [_at(['queue', 'block'])], typF,
                                [_at(o) for o in (['disconnect', 'REQUESTED'], ['eof'], ['reset'], ['queueTimeout'], ['NET'])]))
                else:
                    out.append((n + ':established', est, typF, [_at(o) for o in closers_f]))
                    out.append((n + ':recv-parked', est + [_at(['recvData'])], typF,
                                [_at(o) for o in (['disconnect', 'REQUESTED'], ['eof'], ['reset'], ['readTimeout'], ['NET'])]))
                    out.append((n + ':data-parked', est + [_at(['sendData', 'block'])], typF,
                                [_at(o) for o in (['disconnect', 'REQUESTED'], ['reset'], ['sendTimeout', 0], ['NET'])]))
    for slow in (0, 1, 2, 3):
        new = ['new', 'incoming', 0, slow, slow % 2]
        n = f'incoming-close{slow}'
        out.append((n + ':none', [], 0, [new]))
        if slow < 2:
            out.append((n + ':awaiting', [new], 0,
                        [_at(o) for o in (['disconnect', 'REQUESTED'], ['eof'], ['reset'], ['readTimeout'],
                                          ['firstFrame', 'undecodable'], ['firstFrame', 'pierceUnknown'], ['NET'])]))
            out.append((n + ':initP', [new, _at(['firstFrame', 'initP'])], 0, [_at(o) for o in closers_p]))
            out.append((n + ':pierceP', [new, _at(['firstFrame', 'pierceP'])], 0,
                        [_at(o) for o in (['disconnect', 'REQUESTED'], ['eof'], ['send', 'fail'])]))
        out.append((n + ':initF', [new, _at(['firstFrame', 'initF'])], 1, [_at(o) for o in closers_f]))
        out.append((n + ':initF:recv-parked', [new, _at(['firstFrame', 'initF']), _at(['recvData'])], 1,
                    [_at(o) for o in (['disconnect', 'REQUESTED'], ['eof'], ['reset'], ['readTimeout'])]))
    for slow in (0, 1):
        new = ['new', 'server', 0, slow, 0]
        n = f'server-close{slow}'
        out.append((n + ':none', [], 0, [new]))
        out.append((n + ':opening', [new], 0,
                    [_at(o) for o in (['connectOk', 'ok'], ['connectFail'], ['cancelAttempt'], ['disconnect', 'REQUESTED'])]))
        out.append((n + ':established', [new, _at(['connectOk', 'ok'])], 0,
                    [_at(o) for o in (['disconnect', 'REQUESTED'], ['eof'], ['reset'], ['send', 'fail'], ['queue', 'fail'])]))
    return out


def _held_grid() -> list[dict]:
    """For every state a connection can be in (`_held_bases`) and every op that makes the library report a state there
    (the trigger): an application listener of ConnectionStateChangedEvent SUSPENDS at one of the notifications
    (CONNECTING / CONNECTED / CLOSING / CLOSED, or CLOSING and CLOSED both) — or calls disconnect() / send from inside
    it —, one event of MEANWHILE is delivered while it is suspended, the listener is released, and the connection is
    probed (further completions, sends, raw data calls, disconnect)."""
    cases = []
    for bname, base, typF, triggers in _held_bases():
        server = bname.startswith('server')
        for trig in triggers:
            tn = '-'.join(str(x) for x in trig[1:] if not isinstance(x, int) or trig[0] != 'at') if trig[0] != 'new' else 'new'
            if trig[0] == 'new':
                holds = [('CONNECTING',), ('CONNECTED',)] if trig[1] != 'incoming' else [('CONNECTED',)]
            elif trig[0] == 'at' and trig[2] == 'connectOk':
                holds = [('CONNECTED',), ('CONNECTED', 'CLOSING'), ('CONNECTED', 'CLOSED')]
            else:
                holds = [('CLOSING',), ('CLOSED',), ('CLOSING', 'CLOSED')]
            modelled = 'close0' in bname or 'close1' in bname
            tail = ([_at(['closeDone', 'release']), ['gate', []]] + _release_all()
                    + [_at(o) for o in ((RAW_PROBES_M if modelled else RAW_PROBES) if typF else []) + PROBES])
            for hold in holds:
                arm = ['gate', [[0, h, 'park'] for h in hold]]
                for ev in MEANWHILE:
                    if ev == ['restart'] and not server:
                        continue
                    cases.append({'kind': f'held:{bname}:{tn}:{"+".join(hold)}:{"-".join(str(x) for x in ev)}',
                                  'server': server,
                                  'ops': base + [arm, trig, _at(ev)] + [_at(['release', hold[0]])] + tail})
                # two events meanwhile, the second notification released in between
                if len(hold) == 2:
                    for ev in (['disconnect', 'REQUESTED'], ['send', 'ok'], ['sendData', 'ok'], ['connectOk', 'ok'],
                               ['eof'], ['drainOk']):
                        cases.append({'kind': f'held:{bname}:{tn}:{"+".join(hold)}:then:{"-".join(str(x) for x in ev)}',
                                      'server': server,
                                      'ops': base + [arm, trig, _at(['release', hold[0]]), _at(ev),
                                                     _at(['release', hold[1]])] + tail})
            # a peer that has stopped reading: the close runs into its timeout, the transport stays alive; a listener of
            # CLOSED suspends (raw calls meanwhile) or makes a raw send itself
            if typF and 'close2' in bname and holds[0][0] == 'CLOSING':
                for ev in (['sendData', 'ok'], ['recvData'], ['sendFile', 'ok'], ['recvFile'], ['recvEofQuiet']):
                    cases.append({'kind': f'held:{bname}:{tn}:CLOSED:timeout-then:{"-".join(ev)}', 'server': server,
                                  'ops': base + [['gate', [[0, 'CLOSED', 'park']]], trig, _at(['closeDone', 'timeout']),
                                                 _at(ev), _at(['data']), _at(['data']), _at(['release', 'CLOSED'])] + tail})
                cases.append({'kind': f'held:{bname}:{tn}:act:CLOSED:timeout-then:sendData', 'server': server,
                              'ops': base + [['gate', [[0, 'CLOSED', 'act:sendData']]], trig,
                                             _at(['closeDone', 'timeout'])] + tail})
            # a listener that acts from inside the notification
            for st in holds[0][:1] + (('CLOSING', 'CLOSED') if holds[0][0] != 'CLOSING' else ('CLOSED',)):
                for act in ('disconnect', 'send') + (('sendData',) if typF else ()):
                    cases.append({'kind': f'held:{bname}:{tn}:act:{st}:{act}', 'server': server,
                                  'ops': base + [['gate', [[0, st, 'act:' + act]]], trig] + tail})
    return cases


def _held_core(c: dict) -> bool:
    k = c['kind']
    if ':timeout-then:' in k:
        return True
    return (':act:' in k or k.endswith((':disconnect-REQUESTED', ':connectOk-ok', ':sendData-ok', ':cancelAttempt'))
            ) and 'close1' not in k and '-obf' not in k


def _raw_grid() -> list[dict]:
    """Raw data paths of file connections (send_data / send_file / receive_data / receive_file / receive_until_eof)
    after every way of closing, wait_closed() returning, suspending, running into its 5 s timeout with a peer that has
    stopped reading (the transport stays alive), or raising."""
    cases = []
    closers = [['disconnect', 'REQUESTED'], ['eof'], ['reset'], ['readTimeout'], ['sendData', 'fail'], ['sendTimeout', 0],
               ['NET'], ['cancelAttempt']]
    pend = [[], [['recvData']], [['sendData', 'block']], [['recvData'], ['sendData', 'block']], [['sendFile', 'block']],
            [['recvFile']], [['recvEof']]]
    setups = [('direct', lambda slow: [['new', 'direct', 1, slow, 0], ['at', 0, 'connectOk', 'ok']]),
              ('back', lambda slow: [['new', 'back', 1, slow, 1], ['at', 0, 'connectOk', 'ok']]),
              ('incoming', lambda slow: [['new', 'incoming', 0, slow, 0], ['at', 0, 'firstFrame', 'initF']]),
              ('pierce', lambda slow: [['new', 'incoming', 0, slow, 1], ['at', 0, 'firstFrame', 'pierceF']])]
    for sname, setup in setups:
        for slow in (0, 1, 2, 3):
            ends = [[]] if slow in (0, 3) else [[['closeDone', 'release']], [['closeDone', 'timeout']],
                                                 [['closeDone', 'raise']]]
            for p in pend:
                for cl in closers:
                    for end in ends:
                        for mid in ([], [['sendData', 'ok']], [['recvData']]) if slow in (1, 2) else ([],):
                            kind = (f'raw:{sname}-close{slow}:{"+".join(o[0] for o in p)}:'
                                    f'{"-".join(str(x) for x in cl)}:{"+".join(o[0] for o in mid)}:'
                                    f'{"-".join(str(x) for x in end[0]) if end else ""}')
                            ops = setup(slow) + [_at(o) for o in p + [cl] + mid + end + RAW_PROBES + PROBES]
                            cases.append({'kind': kind, 'server': False, 'ops': ops})
                            if slow in (0, 1) and all(o[0] in ('sendData', 'recvData') for o in p) \
                                    and end != [['closeDone', 'raise']]:
                                # the same with the modelled calls only (send_data / receive_data / raw bytes)
                                ops = setup(slow) + [_at(o) for o in p + [cl] + mid + end + RAW_PROBES_M + PROBES]
                                cases.append({'kind': kind + ':core', 'server': False, 'ops': ops})
    return cases



def _hangup_grid() -> list[dict]:
    """The remote end hangs up (`hangup` eof / reset: whoever is or is not reading at that moment) — on an accepted
    connection (plain / obfuscated port) before its first frame, after every kind of first frame (well-formed PeerInit /
    PeerPierceFirewall of both types, unknown ticket, and every COMPLETE frame that is no init message), with the
    application having written to it or not, wait_closed() returning / suspending / raising; and on established outgoing
    and server connections.  No local call closes the connection before the remote end is gone; what follows are probes.
    Monitor only (the model has `eof` / `reset` for a parked reader)."""
    cases = []
    firsts = [None, 'initP', 'initF', 'initD', 'initX', 'pierceP', 'pierceF', 'pierceUnknown'] + list(UNDECODABLE_FIRST)
    tails = [('', []), ('send', [['send', 'ok']]), ('local', [['disconnect'], ['send', 'ok']]),
             ('probes', [['frame', 1], ['send', 'ok'], ['queue', 'ok'], ['eof'], ['readTimeout']])]
    for obf in (0, 1):
        for slow in (0, 1, 3):
            for first in firsts:
                for hang in ('eof', 'reset'):
                    for mid_n, mid in (('', []), ('sent', [['send', 'ok']]), ('queued', [['queue', 'ok']])):
                        for tname, tail in tails:
                            if mid and tname not in ('', 'local'):
                                continue
                            ops = [['new', 'incoming', 0, slow, obf]]
                            if first:
                                ops.append(['at', 0, 'firstFrame', first])
                            ops += [_at(o) for o in mid] + [['at', 0, 'hangup', hang]]
                            if slow == 1:
                                ops.append(['at', 0, 'closeDone', 'release'])
                            ops += [_at(o) for o in tail]
                            if slow == 1:
                                ops.append(['at', 0, 'closeDone', 'release'])
                            # another peer connects afterwards: the registry is looked at once more
                            ops += [['new', 'incoming', 0, 0, obf], ['at', 1, 'firstFrame', 'initP']]
                            cases.append({'kind': f'hangup:incoming{"-obf" if obf else ""}-close{slow}:{first or "silent"}:'
                                                  f'{mid_n}:{hang}:{tname}', 'server': False, 'ops': ops})
    # a suspended listener of CONNECTED holds the accept handler back: the hang-up is there when it goes on
    for obf in (0, 1):
        for slow in (0, 1):
            for hang in ('eof', 'reset'):
                cases.append({'kind': f'hangup:incoming{"-obf" if obf else ""}-close{slow}:held-CONNECTED::{hang}:',
                              'server': False,
                              'ops': [['gate', [[0, 'CONNECTED', 'park']]], ['new', 'incoming', 0, slow, obf], ['gate', []],
                                      ['at', 0, 'hangup', hang], ['at', 0, 'release', 'CONNECTED'],
                                      ['at', 0, 'closeDone', 'release'], ['at', 0, 'send', 'ok']]})
    for origin in ('direct', 'back'):
        for typF in (0, 1):
            for slow in (0, 1):
                for hang in ('eof', 'reset'):
                    for how in ('ok', 'block', 'fail'):
                        ops = [['new', origin, typF, slow, slow], ['at', 0, 'connectOk', how], ['at', 0, 'hangup', hang],
                               ['at', 0, 'drainOk'], ['at', 0, 'closeDone', 'release'], ['at', 0, 'send', 'ok'],
                               ['at', 0, 'recvData'], ['at', 0, 'closeDone', 'release']]
                        cases.append({'kind': f'hangup:{origin}-{"F" if typF else "P"}-close{slow}:init-{how}:{hang}',
                                      'server': False, 'ops': ops})
    for slow in (0, 1):
        for hang in ('eof', 'reset'):
            cases.append({'kind': f'hangup:server-close{slow}:{hang}', 'server': True,
                          'ops': [['new', 'server', 0, slow, 0], ['at', 0, 'connectOk', 'ok'], ['at', 0, 'hangup', hang],
                                  ['at', 0, 'closeDone', 'release'], ['at', 0, 'restart'], ['at', 0, 'connectOk', 'ok'],
                                  ['at', 0, 'frame', 1]]})
    return cases


def _queue_core(c: dict) -> bool:
    k = c['kind']
    return ((':q:' in k and k.endswith('drain@2')) or (':burst:' in k and k.endswith('+REQUESTED:'))
            or 'while-opening' in k or 'init-drain-parked' in k)


PROBES = [['connectOk', 'ok'], ['frame', 1], ['send', 'ok'], ['queue', 'ok'], ['frame', 1], ['eof'], ['disconnect'],
          ['connectOk', 'ok'], ['connectFail'], ['closeDone', 'release'], ['send', 'ok']]


def _cfg_grid() -> list[dict]:
    """Connect paths that depend on configuration and on what the peer advertises: `network.peer.obfuscate` on / off x
    regular port, obfuscated port or both advertised (in the ConnectToPeer message / in the GetPeerAddress answer) x
    connection type x how the first attempt ends; every scenario ends with probes (a further connect completion, a
    frame, sends, EOF, disconnect — whatever is enabled then), so that a connection object that comes back to life, or
    a second object, is driven and observed as well.  Origin `api` = the public `create_peer_connection` in both
    connect modes (monitor only; C11 holds the model of that request)."""
    cases = []
    firsts = [
        ('refused', [['connectFail']]), ('timeout', [['connectTimeout']]), ('overflow', [['connectFail', 'overflow']]),
        ('cancelled', [['cancelAttempt']]), ('local-while-opening', [['disconnect'], ['connectOk', 'ok']]),
        ('ok', [['connectOk', 'ok']]), ('init-fails', [['connectOk', 'fail']]),
        ('init-parked-reset', [['connectOk', 'block'], ['reset']]),
        ('init-parked-cancel', [['connectOk', 'block'], ['cancelAttempt']]),
        ('init-parked-ok', [['connectOk', 'block'], ['drainOk']]),
    ]
    for prefer in (0, 1):
        for origin in ('back', 'direct'):
            for obf in ((0, 1, 2) if origin == 'back' else (0, 1, 2, 3, 4)):
                for typF in (0, 1):
                    for fname, first in firsts:
                        slow = (prefer + obf + typF + len(fname)) % 2
                        ops = [['new', origin, typF, slow, obf]] + [['at', 0] + o for o in first + PROBES]
                        cases.append({'kind': f'cfg:{origin}-{"F" if typF else "P"}:prefer{prefer}:ports{obf}:{fname}',
                                      'server': False, 'cfg': {'obfuscate': prefer}, 'ops': ops})
    indirect = [
        ('pierce', [['new', 'incoming', 0, 0, 0], ['at', 1, 'firstFrame', 'pierceApi']]),
        ('pierce-obfs-port', [['new', 'incoming', 0, 1, 1], ['at', 1, 'firstFrame', 'pierceApi']]),
        ('cannot-connect', [['at', 0, 'cannotConnect']]),
        ('indirect-timeout', [['at', 0, 'indirectTimeout']]),
        ('cancel', [['at', 0, 'cancelAttempt']]),
    ]
    for mode in ('fallback', 'race'):
        for prefer in (0, 1):
            for obf in (0, 1, 2, 3, 4):
                for typF in (0, 1):
                    cfg = {'obfuscate': prefer, 'mode': mode, 'monitor_only': True}
                    new = ['new', 'api', typF, (prefer + obf + typF) % 2, obf]
                    base = f'api:{mode}:{"F" if typF else "P"}:prefer{prefer}:ports{obf}'
                    probes0 = [['at', 0] + o for o in PROBES]
                    probes1 = [['at', 1] + o for o in PROBES[1:]]
                    for fname, first in firsts:
                        d = [['at', 0] + o for o in first]
                        for iname, ind in indirect:
                            cases.append({'kind': f'{base}:{fname}:then-{iname}', 'server': False, 'cfg': cfg,
                                          'ops': [new] + d + ind + probes0 + probes1})
                            if mode == 'race' and fname in ('refused', 'ok', 'init-fails', 'timeout'):
                                cases.append({'kind': f'{base}:{iname}-then:{fname}', 'server': False, 'cfg': cfg,
                                              'ops': [new] + ind + d + probes0 + probes1})
    return cases


OPS_W = [('connectFail', 'overflow', 1), ('connectOk', 'ok', 8), ('connectOk', 'block', 3), ('connectOk', 'fail', 2), ('connectFail', None, 3),
         ('connectTimeout', None, 2), ('cancelAttempt', None, 4), ('firstFrame', 'initP', 4), ('firstFrame', 'initF', 1),
         ('firstFrame', 'pierceP', 2), ('firstFrame', 'pierceF', 1), ('firstFrame', 'pierceUnknown', 1),
         ('firstFrame', 'undecodable', 1), ('firstFrame', 'badCodeBody', 1), ('firstFrame', 'initCut', 1), ('frame', 1, 5), ('frame', 0, 2), ('partialEof', None, 1), ('eof', None, 2),
         ('reset', None, 2), ('readTimeout', None, 2), ('disconnect', None, 4), ('disconnect', 2, 2), ('disconnect', 'frame', 2),
         ('closeDone', 'release', 5), ('closeDone', 'timeout', 2), ('send', 'ok', 5), ('send', 'block', 3),
         ('send', 'fail', 2), ('drainOk', None, 4), ('sendTimeout', 0, 2), ('sendTimeout', 1, 2),
         ('queue', 'ok', 3), ('queue', 'block', 4), ('queue', 'fail', 1), ('queueTimeout', None, 2),
         ('disconnect', 'REQUESTED', 2), ('disconnect', 'UNKNOWN', 1), ('disconnect', 'EOF', 1), ('disconnect', 'TIMEOUT', 1),
         ('disconnect', 'READ_ERROR', 1), ('disconnect', 'WRITE_ERROR', 1), ('disconnect', 'CONNECT_FAILED', 1),
         ('burst', None, 5)]


def _gen_burst(rng: random.Random, env: bool) -> list:
    """calls made in one loop iteration.  Modelled form: sends / queued sends first (one only unless all of them go
    straight out), then disconnect calls.  `env`: anything in any order, remote events included (monitor only)."""
    if env:
        pool = [['queue', 'ok'], ['queue', 'block'], ['send', 'ok'], ['disconnect', 'REQUESTED'], ['disconnect', 'EOF'],
                ['disconnect', 'REQUESTED'], ['eof'], ['reset'], ['frame', 1], ['partialEof'], ['queue', 'fail']]
        subs, gone = [], False
        for _ in range(rng.randint(2, 5)):
            o = list(rng.choice(pool))
            if o[0] in ('eof', 'reset', 'frame', 'partialEof'):
                if gone:
                    continue
                gone = o[0] != 'frame'
            subs.append(o)
        return subs
    sends: list = []
    if rng.random() < 0.85:
        m = rng.choice(['ok', 'ok', 'block', 'fail'])
        if m == 'ok':
            sends = [[rng.choice(['queue', 'queue', 'send']), 'ok'] for _ in range(rng.randint(1, 3))]
        else:
            sends = [[rng.choice(['queue', 'queue', 'send']), m]]
    ds = [['disconnect', rng.choice(REASONS + ('REQUESTED',) * 4)] for _ in range(rng.randint(0 if len(sends) > 1 else 1, 3))]
    return sends + ds


def _gen_random(rng: random.Random) -> dict:
    ncon = rng.randint(1, 3)
    ops: list = []
    made = 0
    n = rng.randint(6, 22)
    pool = [(a, b) for a, b, w in OPS_W for _ in range(w)]
    cfg = {'obfuscate': int(rng.random() < 0.4)}
    monitor_only = rng.random() < 0.12
    if monitor_only:
        cfg.update(mode=rng.choice(['fallback', 'race']), monitor_only=True)
        pool += [('cannotConnect', None), ('indirectTimeout', None), ('firstFrame', 'pierceApi')] * 3
        pool += [('hangup', 'eof'), ('hangup', 'reset')] * 2       # the remote end hangs up whoever reads (monitor only)
    # suspended / acting listeners of the state notifications, raw data calls on file connections
    held = rng.random() < 0.35
    if held:
        pool = [p_ for p_ in pool if p_[0] != 'burst']       # (calls of one loop iteration are compared un-suspended)
        pool += [('release', s_) for s_ in STATES for _ in range(3)]
    pool += [('sendData', 'ok'), ('sendData', 'ok'), ('sendData', 'block'), ('sendData', 'fail'), ('recvData', None),
             ('recvData', None), ('data', None), ('data', None)]
    if monitor_only or rng.random() < 0.1:
        pool += [('sendFile', 'ok'), ('recvFile', None), ('recvEof', None), ('recvEofQuiet', None), ('unstall', None),
                 ('closeDone', 'raise')]
        slows = [0, 1, 2, 3]
    else:
        slows = [0, 1]

    def gate_op():
        arms = []
        for _ in range(rng.randint(0, 3)):
            mode = rng.choice(['park'] * 6 + ['act:disconnect', 'act:send', 'act:sendData'])
            arms.append([rng.randrange(ncon), rng.choice(STATES), mode])
        # (one mode per notification)
        seen, out = set(), []
        for a in arms:
            if (a[0], a[1]) not in seen:
                seen.add((a[0], a[1]))
                out.append(a)
        return ['gate', out]
    for _ in range(n):
        if held and rng.random() < 0.12:
            ops.append(gate_op())
            continue
        if made < ncon and (made == 0 or rng.random() < 0.25):
            origin = rng.choice(['direct', 'direct', 'back', 'incoming', 'incoming'])
            if monitor_only and (made == 0 or rng.random() < 0.4):
                origin = 'api'
            typF = rng.random() < 0.3 if origin != 'incoming' else 0
            if origin == 'incoming':
                obf = int(rng.random() < 0.3)
            elif origin == 'back':
                obf = rng.choice([0, 0, 1, 2, 2])
            else:
                obf = rng.choice([0, 0, 0, 1, 2, 2, 3, 4])
            ops.append(['new', origin, int(typF), rng.choice(slows), obf])
            made += 1
            continue
        if rng.random() < 0.06 and made:
            b = rng.choice([None, None, ['incoming', 0, int(rng.random() < 0.5), int(rng.random() < 0.3)],
                            ['direct', int(rng.random() < 0.2), int(rng.random() < 0.5), 0]])
            ops.append(['net', 'disconnect'] + (b if b else []))
            if b:
                made += 1
            continue
        if not made:
            continue
        name, arg = rng.choice(pool)
        i = rng.randrange(made)
        if name == 'firstFrame' and arg == 'initP' and rng.random() < 0.3:
            arg = 'initF'
        if name == 'burst':
            arg = _gen_burst(rng, monitor_only and rng.random() < 0.6)
        ops.append(['at', i, name] + ([arg] if arg is not None else []))
    if held:
        ops += [['gate', []]] + [['at', i, 'release', s_] for _ in range(2) for i in range(made) for s_ in STATES]
    return {'kind': 'random-held' if held else 'random', 'server': False, 'cfg': cfg, 'ops': ops}


def _eval_case(case):
    try:
        return _run_impl(case)
    except AssertionError:
        raise
    except Exception as e:
        import traceback
        return {'harness_error': f'{type(e).__name__}: {e}', 'tb': traceback.format_exc()[-2500:]}


# known inputs, always replayed (the replay inputs of fixes/C10-*.md)
WITNESSES = [
    {'kind': 'witness:accepted-during-network-disconnect', 'server': False,
     'ops': [['new', 'direct', 0, 0, 0], ['at', 0, 'connectOk', 'ok'], ['net', 'disconnect', 'incoming', 0, 0, 0]]},
    {'kind': 'witness:connect-raises-non-oserror', 'server': False,
     'ops': [['new', 'direct', 0, 0, 0], ['at', 0, 'connectFail', 'overflow']]},
    {'kind': 'witness:silent-incoming-peer', 'server': False,
     'ops': [['new', 'incoming', 0, 0, 0], ['net', 'disconnect']]},
    {'kind': 'witness:accept-eof-before-init', 'server': False,
     'ops': [['new', 'incoming', 0, 0, 0], ['at', 0, 'eof']]},
    {'kind': 'witness:accept-bad-init', 'server': False,
     'ops': [['new', 'incoming', 0, 0, 0], ['at', 0, 'firstFrame', 'undecodable']]},
    {'kind': 'witness:cancel-during-open', 'server': False,
     'ops': [['new', 'direct', 0, 0, 0], ['at', 0, 'cancelAttempt']]},
    {'kind': 'witness:disconnect-during-open', 'server': False,
     'ops': [['new', 'direct', 0, 0, 0], ['at', 0, 'disconnect'], ['at', 0, 'connectOk', 'ok']]},
    # output pending (a queued message whose drain() is held back / whose task has not started) when the connection is
    # closed twice: two local calls, a local call overtaken by EOF, the calls made in one loop iteration
    {'kind': 'witness:queued-output-two-disconnects', 'server': False,
     'ops': [['new', 'direct', 0, 0, 0], ['at', 0, 'connectOk', 'ok'], ['at', 0, 'queue', 'block'],
             ['at', 0, 'disconnect', 'REQUESTED'], ['at', 0, 'disconnect', 'REQUESTED'], ['at', 0, 'drainOk']]},
    {'kind': 'witness:queued-output-disconnect-then-eof', 'server': False,
     'ops': [['new', 'incoming', 0, 0, 0], ['at', 0, 'firstFrame', 'initP'], ['at', 0, 'queue', 'block'],
             ['at', 0, 'disconnect', 'REQUESTED'], ['at', 0, 'eof'], ['at', 0, 'drainOk']]},
    {'kind': 'witness:queued-output-same-iteration', 'server': False,
     'ops': [['new', 'direct', 0, 1, 0], ['at', 0, 'connectOk', 'ok'],
             ['at', 0, 'burst', [['queue', 'ok'], ['disconnect', 'REQUESTED'], ['disconnect', 'REQUESTED']]],
             ['at', 0, 'closeDone', 'release']]},
    # both ports advertised and obfuscation preferred: the dialled (obfuscated) port fails; whatever connects next is driven
    {'kind': 'witness:connect-back-both-ports-first-fails', 'server': False, 'cfg': {'obfuscate': 1},
     'ops': [['new', 'back', 0, 0, 2], ['at', 0, 'connectFail'], ['at', 0, 'connectOk', 'ok'], ['at', 0, 'frame', 1],
             ['at', 0, 'send', 'ok'], ['at', 0, 'eof']]},
    # state listeners that suspend / act (replay inputs of fixes/C10-accepted-registered-when-reported.md,
    # fixes/C10-connecting-notification-cancel.md; the class of seeds C10-i / C10-j2)
    {'kind': 'witness:accepted-closed-inside-connected-notification', 'server': False,
     'ops': [['gate', [[0, 'CONNECTED', 'act:disconnect']]], ['new', 'incoming', 0, 0, 0], ['at', 0, 'send', 'ok']]},
    {'kind': 'witness:accepted-unregistered-while-connected-listener-suspended', 'server': False,
     'ops': [['gate', [[0, 'CONNECTED', 'park']]], ['new', 'incoming', 0, 0, 0], ['at', 0, 'disconnect'],
             ['at', 0, 'release', 'CONNECTED'], ['at', 0, 'send', 'ok']]},
    {'kind': 'witness:connect-back-cancelled-inside-connecting-notification', 'server': False,
     'ops': [['gate', [[0, 'CONNECTING', 'park']]], ['new', 'back', 0, 0, 0], ['at', 0, 'cancelAttempt'], ['gate', []],
             ['at', 0, 'connectOk', 'ok'], ['at', 0, 'send', 'ok']]},
    {'kind': 'witness:server-connect-cancelled-inside-connecting-notification', 'server': True,
     'ops': [['gate', [[0, 'CONNECTING', 'park']]], ['new', 'server', 0, 0, 0], ['at', 0, 'cancelAttempt'], ['gate', []],
             ['at', 0, 'restart'], ['at', 0, 'connectOk', 'ok']]},
    {'kind': 'witness:connect-completes-while-closing-listener-suspended', 'server': False,
     'ops': [['gate', [[0, 'CLOSING', 'park']]], ['new', 'direct', 0, 0, 0], ['at', 0, 'disconnect'],
             ['at', 0, 'connectOk', 'ok'], ['at', 0, 'release', 'CLOSING'], ['gate', []], ['at', 0, 'release', 'CLOSING'],
             ['at', 0, 'eof'], ['at', 0, 'send', 'ok']]},
    {'kind': 'witness:stalled-peer-close-times-out-then-send-data', 'server': False,
     'ops': [['new', 'direct', 1, 2, 0], ['at', 0, 'connectOk', 'ok'], ['at', 0, 'sendData', 'ok'], ['at', 0, 'disconnect'],
             ['at', 0, 'closeDone', 'timeout'], ['at', 0, 'sendData', 'ok'], ['at', 0, 'recvData'], ['at', 0, 'unstall']]},
    {'kind': 'witness:send-data-from-inside-closed-notification', 'server': False,
     'ops': [['new', 'incoming', 0, 2, 0], ['at', 0, 'firstFrame', 'initF'], ['gate', [[0, 'CLOSED', 'act:sendData']]],
             ['at', 0, 'disconnect'], ['at', 0, 'closeDone', 'timeout'], ['at', 0, 'unstall']]},
    # a COMPLETE first frame that is no init message, then the remote end hangs up: closed by the library, never abandoned
    # (the class of seed C10-m)
    {'kind': 'witness:accepted-complete-undecodable-frame-then-hangup', 'server': False,
     'ops': [['new', 'incoming', 0, 0, 1], ['at', 0, 'firstFrame', 'badCodeBody'], ['at', 0, 'hangup', 'eof'],
             ['new', 'incoming', 0, 0, 0], ['at', 1, 'firstFrame', 'initCut'], ['at', 1, 'hangup', 'reset']]},
    {'kind': 'witness:looked-up-both-ports-first-fails', 'server': False, 'cfg': {'obfuscate': 1},
     'ops': [['new', 'direct', 0, 0, 2], ['at', 0, 'connectFail'], ['at', 0, 'connectOk', 'ok'], ['at', 0, 'frame', 1],
             ['at', 0, 'send', 'ok'], ['at', 0, 'eof']]},
]


class C10(Property):
    id = 'C10'
    props_module = 'AioslskVerif.Props.C10'
    driver_module = 'AioslskVerif.Driver.C10'
    rule = ('the full grid origin {direct, connect-back, incoming clear/obfuscated port, server} x type {P,F} x '
            'obfuscated x wait_closed {returns, suspends} x ending {refused, connect timeout, cancelled while opening / '
            'while sending the init message / while closing, local disconnect (1 or 2 concurrent calls) in every phase, '
            'init write fails / drain times out / reset, EOF / reset / partial frame / read timeout before and after the '
            'init message, undecodable init, unknown pierce ticket, send fails / times out, server restart, connect raising a '
            'non-OSError}, each followed '
            'by further disconnect/send calls; OUTPUT PENDING: messages queued with queue_message (drain held back, or the '
            'task not yet started: calls made in one loop iteration = burst) on direct P/F, connect-back, accepted (before / '
            'after init) and server connections x wait_closed {returns, suspends} x first closer {disconnect() with each of '
            'the 7 close reasons, EOF, reset, partial frame, read timer, the send timer / write error of the queued send '
            'itself, write error of another send} x second closer x the drain released before / between / after them; '
            'CONFIGURATION: network.peer.obfuscate on/off x ports advertised {regular, obfuscated, both} in ConnectToPeer / in '
            'the GetPeerAddress answer (address look-up) x P/F x first attempt {refused, timeout, non-OSError, cancelled, '
            'disconnect while opening, ok, init write fails / parked + reset / cancel / ok}, each followed by probes (further '
            'connect completion, frames, sends, EOF, disconnect); the public create_peer_connection in fallback and race mode '
            'over the same grid x indirect {peer pierces on either port, CannotConnect, timeout, cancel} in both orders '
            '(monitor only); Network.disconnect() over 12 set-ups, alone and with a connection accepted / '
            'requested in the same loop iteration behind the call or in the window a slow wait_closed opens (model: cancel '
            'of the running connect-back tasks + disconnect() on the server connection and every registered connection); '
            'plus random op sequences (6..22 ops over 1..3 connections, all of the above ops, 12 % monitor-only with '
            'create_peer_connection, bursts that mix calls and remote events, and remote hang-ups whoever reads) derived from VERIF_SEED; the quick tier runs '
            'the core of the two added grids plus a quarter / a third of the rest rotated by the seed. '
            'SUSPENDED STATE LISTENERS: an application listener of ConnectionStateChangedEvent, registered behind the recorder, '
            'that suspends at (or calls disconnect / send_message / send_data from inside) the CONNECTING / CONNECTED / CLOSING '
            '/ CLOSED notification of a connection: for every state a connection can be in (direct / connect-back P and F, '
            'accepted before / after PeerInit / PeerPierceFirewall, server; opening, init write parked, established, send / '
            'queued send / raw read / raw send parked) x every op that makes the library report a state there x which '
            'notification(s) are held x one of 44 events delivered meanwhile (connect completion / failure / timeout, '
            'cancellation, first frame, frames, EOF, reset, timers, disconnect calls, wait_closed returning / timing out / '
            'raising, sends, queued sends, raw calls, Network.disconnect, restart) x release x probes (59 700 scenarios; quick: '
            'core + 1/16 by seed); 35 % of the random sequences arm / disarm such listeners at random and release them at '
            'random. RAW DATA PATHS of file connections (send_data, receive_data, send_file, receive_file, receive_until_eof; '
            'raw bytes from the peer) before / while / after every way of closing x wait_closed {returns, suspends and then '
            'returns / runs into the 5 s timeout / raises, with a peer that has stopped reading so that close() leaves the '
            'transport alive and writable, raises at once} (5 400 scenarios; quick: the modelled core + 1/4 by seed). '
            'REMOTE HANG-UP WHOEVER READS (`hangup` eof / reset; monitor only): accepted connections on both ports x '
            'wait_closed {returns, suspends, raises} x first frame {none, PeerInit P/F/D/unknown type, PeerPierceFirewall P/F, unknown ticket, '
            '6 COMPLETE frames that are no init message: unknown code without / with body, PeerInit / PeerPierceFirewall cut '
            'short inside the frame, length 0} x application wrote / queued before x eof / reset x probes, a CONNECTED '
            'listener suspended meanwhile; established / init-parked / init-failed outgoing P and F connections; the server '
            'connection (1 404 scenarios, all in the quick tier): a connection the library itself reads from must be CLOSED '
            'and unregistered once the remote end is gone and nothing is pending. '
            'Modelled: everything but stalled / raising transports, send_file / receive_file / receive_until_eof, a server '
            'reconnect while a CLOSED listener of the previous life is still busy, create_peer_connection. The monitor keeps one '
            'track per connection OBJECT (also objects the scenario did not ask for). A case is non-trivial when a connection was reported CLOSED and at least 3 ops were executed; '
            'distinct = distinct executed op list')
    assumptions = [
        'each environment completion (connect result, bytes, EOF/reset, timer, drain/wait_closed return, API call) is '
        'processed to quiescence before the next one; n concurrent disconnect() calls issued in one loop iteration are '
        'compared with n sequential calls of the model',
        'listeners of ConnectionStateChangedEvent may suspend or call back into the connection (modelled: every state '
        'notification is a step of its own); listeners of MessageReceivedEvent / PeerInitializedEvent do not suspend',
        'bytes / EOF / reset of the peer are delivered when somebody is parked in a read (or in drain) of that socket: input '
        'that arrives while nobody reads (e.g. while the accept handler waits for a CONNECTED listener) is noticed at the '
        'next read and is not scheduled before it',
        'a raw send made after CLOSED is judged by the bytes that reach the transport (a call that returns without writing '
        'is what send_message does, too)',
        'calls made in one loop iteration (burst) are compared with the same calls one after the other; modelled bursts '
        'are sends / queued sends first, then disconnect calls (a queue_message call made BEHIND a disconnect call of the '
        'same iteration is cancelled before its first step instead of being refused: monitor-only bursts)',
        'at most one direct send and one queued send are parked in drain() per connection; when both are parked and '
        'nothing else is, a reset is not scheduled (which drain waiter wakes first is not part of the control state)',
        'nobody but the reader loop / accept handler reads from a connection (type F connections are not read here), '
        'so EOF/reset/frames are only delivered to a parked reader',
        '`hangup` closes / resets the remote side no matter who reads; the monitor then demands CLOSED + unregistered for every '
        'connection but an initialised file connection (the transfer code reads / writes those: not judged) as soon as no '
        'wait_closed / drain of the connection is parked and no listener of one of its notifications is suspended',
        'the server connection stays connected while a connect-back attempt reports CannotConnect',
    ]
    modelled = ('Connection.set_state incl. the listeners it awaits (each notification a step: noteA / noteC / parkA / parkC); '
                'ListeningConnection.accept; DataConnection.connect/disconnect, _read/_send error '
                'arms, send_message, queue_message / _cancel_queued_messages, _message_reader_loop, send_data / receive_data; '
                'Network registry append/remove sites (_on_peer_connection_state_changed), _make_direct_connection, '
                '_handle_connect_to_peer, on_peer_accepted, _finalize_peer_connection. Exercised only: select_port / '
                '_get_peer_address (which port is dialled does not change the life cycle), create_peer_connection in both '
                'modes (monitor only; model in C11), obfuscation, '
                'message codec, EventBus, asyncio streams/timeouts (through the gated fake net)')

    def _cases(self, seed, tier, widen):
        rng = random.Random(f'C10-{seed}')
        n = (4000 if tier == "quick" else 60000) * widen
        # the two added grids are large: the quick tier always runs their core and a quarter / a third of the rest,
        # rotated by the seed (seeds 0..3 cover all of it); thorough and the widened search run everything
        full = tier != 'quick' or widen > 1
        qg = [c for k, c in enumerate(_queue_grid())
              if full or _queue_core(c) or k % 4 == seed % 4]
        cg = [c for k, c in enumerate(_cfg_grid())
              if full or not c['kind'].startswith('api:') or k % 3 == seed % 3]
        # suspended listeners / raw data paths: the core (acting listeners, the directed meanwhile-events) and a
        # sixteenth / a quarter of the rest per quick run
        hg = [c for k, c in enumerate(_held_grid())
              if full or ':timeout-then:' in c['kind'] or (_held_core(c) and k % 4 == seed % 4) or k % 16 == seed % 16]
        rg = [c for k, c in enumerate(_raw_grid()) if full or c['kind'].endswith(':core') or k % 4 == seed % 4]
        cases = list(WITNESSES) + _grid() + _hangup_grid() + qg + cg + hg + rg + [_gen_random(rng) for _ in range(n)]
        return cases

    def correspondence(self, seed, tier, model_ok, widen=1):
        res = KResult()
        cases = self._cases(seed, tier, widen)
        impl = common.parallel_map(_eval_case, cases)
        for c, io in zip(cases, impl):
            if io.get('harness_error'):
                raise RuntimeError(f'C10 harness error: {io["harness_error"]}\n{io.get("tb")}\ncase={c}')
        model = None
        if model_ok:
            lines, spans = [], []
            for c, io in zip(cases, impl):
                groups = _model_groups(c, io)
                if groups is None:
                    spans.append(None)        # real code + monitor only (no model of these ops)
                    continue
                pos = len(lines) + 1
                sp = []
                lines.append('reset')
                for g in groups:
                    sp.append((pos, len(g)))
                    pos += len(g)
                    lines += g
                spans.append(sp)
            out = common.run_driver(self.driver_file, lines)
            model = [None if sp is None else [(_merge_lines(out[a:a + k]) if k else None) for a, k in sp] for sp in spans]
        else:
            res.model_available = False
        res.disagreements += site_breaks(cases, impl)
        res.count('await-sites-seen', len({x for io in impl for x in io.get('sites', [])}))
        for i, c in enumerate(cases):
            io = impl[i]
            res.evaluations += 1
            res.count('kind:' + c['kind'].split(':')[0].split('-')[0])
            res.count('ops-executed', len(io['executed']))
            res.count('ops-skipped(not enabled)', len(io['skipped']))
            for op in io['executed']:
                res.count('op:' + ('net-disconnect' + ('+new' if len(op) > 3 else '') if op[0] == 'net'
                                   else f'new-{op[1]}-ports{op[4]}' if op[0] == 'new'
                                   else 'gate' if op[0] == 'gate'
                                   else op[2] + (':' + op[3] if op[2] == 'release' else '')))
                if op[0] == 'gate':
                    for g in op[1]:
                        res.count(f'armed:{g[1]}:{g[2]}')
                if op[0] == 'new':
                    res.count(f'wait_closed:{("returns", "suspends", "stalled-peer", "raises")[op[3]]}')
                if op[0] == 'at' and op[2] == 'burst':
                    res.count('burst:' + '+'.join(sub[0] for sub in op[3]))
            for l in io['lines']:
                for tok in l.split(' ')[0][3:].split(','):
                    if tok:
                        res.count('event:' + tok)
            for _n, _lab, state, kind in io.get('gate', []):
                if kind != 'pass':
                    res.count(f'listener:{state}:{kind}')
            closed = any('CLOSED' in l.split(' ')[0] for l in io['lines'])
            if closed and len(io['executed']) >= 3:
                res.nontrivial_keys.add(common.sha(io['executed']))
            if model is not None and model[i] is None:
                res.count('monitor-only-cases')
            elif model is not None:
                res.traces_validated += 1
                # (an op that is no step of the model — arming the listener — has no line to compare)
                if any(a is not None and a != b for a, b in zip(model[i], io['lines'])) or len(model[i]) != len(io['lines']):
                    k = next((j for j, (a, b) in enumerate(zip(model[i], io['lines'])) if a is not None and a != b),
                             min(len(model[i]), len(io['lines'])))
                    res.disagreements.append(Disagreement(
                        {'kind': c['kind'], 'server': c.get('server', False), 'ops': io['executed'],
                         **({'cfg': c['cfg']} if c.get('cfg') else {})},
                        io['lines'][k] if k < len(io['lines']) else None,
                        model[i][k] if k < len(model[i]) else None,
                        f'op #{k}: {io["executed"][k] if k < len(io["executed"]) else ""}'))
            res.violations += _monitor(c, io)
            if len(res.samples) < 3 and c['kind'].startswith('witness'):
                res.samples.append({'case': c, 'impl': io['lines']})
        return res

    def replay(self, case):
        io = _eval_case(case)
        if io.get('harness_error'):
            raise RuntimeError(io['harness_error'] + '\n' + io.get('tb', ''))
        return _monitor(case, io)

    def known_witnesses(self):
        return []


PROPERTY = C10()
