"""C10 — connection life cycle is monotone and the connection registry is exact.

Correspondence K_C10 + monitor (DESIGN.md, C10).

A real `Network` (real `ServerConnection`, `ListeningConnection`s, `PeerConnection`s) runs on
`vlib.connharness.GatedNet` under `vlib.simloop.SimLoop`.  Every real suspension point of the anchored
code (open_connection, drain, wait_closed, reads, timers) is released by the schedule, one completion
per op; after each op the loop runs to quiescence and the harness records, for the connection the op
addressed: the `ConnectionStateChangedEvent`s / `MessageReceivedEvent`s / `PeerInitializedEvent`s and
socket writes in emission order, the results of attempt / send tasks, `CannotConnect` seen by the
server; and globally: `Network.peer_connections`, every connection's `state`, every socket's openness.
The same op list goes through the Lean driver (`Driver/C10.lean`, executing `Model/Conn.lean`).

case = {'kind': str, 'server': bool, 'ops': [op...]}
  op = ['new', origin, typF, slow, obf] | ['at', i, name, arg?]
An op that is not enabled on the implementation (nothing parked there) is skipped and not sent to the
model; grid scenarios are written so that nothing is skipped.
"""
from __future__ import annotations

import asyncio
import logging
import random
import struct
from functools import partial
from typing import Any, Optional

from vlib import common, simloop
from vlib.common import KResult, Violation, Disagreement, Property
from vlib.connharness import (GatedNet, Observer, SiteAudit, make_settings, start_network, fire_timer, find_timer,
                              SERVER_ADDR, CLEAR_PORT, OBFS_PORT)
from vlib.simloop import settle

RANK = {'UNINITIALIZED': 0, 'CONNECTING': 1, 'CONNECTED': 2, 'CLOSING': 3, 'CLOSED': 4}


# --------------------------------------------------------------------------------------------
# implementation side
# --------------------------------------------------------------------------------------------

HANG_S = 10.0

# Every place where a task of the anchored code (network/connection.py, network/network.py) is found suspended
# after a loop iteration, as `file:function>awaited` (`start` = created, first step not yet run).  These are the
# suspension points the models name (open_connection, drain, wait_closed, stream reads, asyncio.wait / gather,
# the response futures).  Anything else seen by vlib.connharness.SiteAudit is a `granularity` break.
KNOWN_SITES = frozenset([
    'connection.py:_message_reader_loop>start', 'connection.py:_read_message>readexactly', 'connection.py:_send>drain',
    'connection.py:accept>start', 'connection.py:connect>open_connection', 'connection.py:disconnect>start',
    'connection.py:disconnect>wait_closed', 'connection.py:send_message>start',
    'network.py:_create_peer_connection_race>future', 'network.py:_create_peer_connection_race>wait',
    'network.py:_get_peer_address>future', 'network.py:_handle_connect_to_peer>start',
    'network.py:_make_direct_connection>start', 'network.py:_make_indirect_connection>start',
    'network.py:_make_indirect_connection>wait', 'network.py:connect_listening_ports>future',
    'network.py:connect_server>start', 'network.py:create_peer_connection>start',
    'network.py:disconnect>future', 'network.py:disconnect>start',      # Network.disconnect(): the gather
])


def site_breaks(cases: list, impl: list) -> list:
    """One Disagreement per await site that the models do not name (first case that shows it)."""
    out, seen = [], set()
    for c, io in zip(cases, impl):
        for site in io.get('sites', []):
            if site not in KNOWN_SITES and site not in seen:
                seen.add(site)
                out.append(Disagreement(c, {'await_site': site}, {'known_sites': sorted(KNOWN_SITES)},
                                        'granularity: the anchored code suspends at a point the model does not name'))
    return out


class _Hang(BaseException):
    pass


class _Slot:
    def __init__(self, idx, origin, typF, slow, obf):
        self.idx, self.origin, self.typF, self.slow, self.obf = idx, origin, typF, slow, obf
        self.key = None
        self.task: Optional[asyncio.Task] = None
        self.task_reported = False
        self.conn = None
        self.cfg = None              # how the init write behaves ('ok'|'block'|'fail')
        self.sends: list = []        # [task, reported]
        self.ticket = 100 + idx
        self.remote_closed = False   # the remote end closed/reset the socket while the library was reading/draining


def _run_impl(case: dict) -> dict:
    from aioslsk.network.network import Network, PeerFuture
    from aioslsk.network.connection import (PeerConnection, ServerConnection, ListeningConnection, CloseReason,
                                            ConnectionState, PeerConnectionState)
    from aioslsk.events import EventBus
    from aioslsk.exceptions import ConnectionWriteError
    from aioslsk.protocol import obfuscation
    from aioslsk.protocol.messages import (PeerInit, PeerPierceFirewall, PeerSharesRequest, ConnectToPeer,
                                           CannotConnect, GetUserStatus, Ping)
    from vlib.simserver import SimServer

    hang = {'hit': 0}

    async def main(loop):
        # a busy loop inside the library (no suspension, so virtual time cannot help) is ended by an exception that
        # `except Exception` arms of the library do not swallow; the task it hits dies, the case goes on and is flagged
        import signal

        def on_alarm(signum, frame):
            hang['hit'] += 1
            signal.setitimer(signal.ITIMER_REAL, HANG_S)
            raise _Hang()
        try:
            signal.signal(signal.SIGALRM, on_alarm)
            signal.setitimer(signal.ITIMER_REAL, HANG_S)
        except ValueError:
            pass
        audit = SiteAudit(loop)
        fn = GatedNet().install()
        try:
            slots: list[_Slot] = []
            by_key: dict = {}
            log: list = []            # (idx, token) ordered observable events
            full: list = []           # same, never truncated, with op number (for the monitor)
            opno = [0]

            def idx_of(conn):
                if isinstance(conn, ServerConnection):
                    for s in slots:
                        if s.origin == 'server':
                            s.conn = conn
                            return s.idx
                    return 'S'
                if isinstance(conn, ListeningConnection):
                    return 'L'
                s = by_key.get((conn.hostname, conn.port))
                if s is None:
                    return f'?{conn.hostname}:{conn.port}'
                if s.conn is None:
                    s.conn = conn
                return s.idx

            def emit(i, tok):
                log.append((i, tok))
                full.append((opno[0], i, tok))

            class Obs(Observer):
                def on_state(self, ev):
                    i = idx_of(ev.connection)
                    tok = ev.state.name + (':' + ev.close_reason.name if ev.state == ConnectionState.CLOSING else '')
                    emit(i, tok)

                def on_message(self, ev):
                    emit(idx_of(ev.connection), 'msg')

                def on_init(self, ev):
                    emit(idx_of(ev.connection), 'init:req' if ev.requested else 'init:unreq')

            server = SimServer()
            if case.get('server'):
                bus = EventBus()
                net = Network(make_settings(), bus)
                await net.connect_listening_ports()
                srv_tasks = []
            else:
                bus, net, server, srv_task = await start_network(loop, fn, make_settings())
                srv_tasks = [srv_task]
            obs = Obs(bus, idx_of)
            seen_cc = [0]

            def setup_for(slot):
                def setup(w):
                    w.close_block = bool(slot.slow)
                    w.on_write = lambda data, i=slot.idx: emit(i, 'wrote')
                    if slot.cfg == 'block':
                        w.drain_block = True
                    elif slot.cfg == 'fail':
                        w.fail_after = 0
                return setup

            def libw(slot):
                return fn.lib_writers.get(slot.key)

            def sock_open(slot):
                w = libw(slot)
                return w is not None and not w._closed

            def accept_task(slot):
                return fn.accept_tasks.get(slot.key)

            def user_send_parked(slot):
                return any(not t.done() for t, _ in slot.sends)

            def enc(slot, data: bytes) -> bytes:
                return obfuscation.encode(data) if (slot.conn is not None and slot.conn.obfuscated) else data

            def enabled(slot, name, arg) -> bool:
                c = slot.conn
                parked_open = fn.connect_parked(slot.key) and slot.task is not None and not slot.task.done()
                if name in ('connectOk', 'connectFail', 'connectTimeout'):
                    return parked_open
                if name == 'cancelAttempt':
                    return slot.origin != 'incoming' and slot.task is not None and not slot.task.done()
                at = accept_task(slot)
                awaiting = (slot.origin == 'incoming' and at is not None and not at.done() and c is not None
                            and c.connection_state == PeerConnectionState.AWAITING_INIT and sock_open(slot))
                reader = c is not None and c._reader_task is not None and not c._reader_task.done() and sock_open(slot)
                if name == 'firstFrame':
                    return awaiting
                if name == 'frame':
                    return reader
                if name in ('partialEof', 'eof', 'readTimeout'):
                    return reader or awaiting
                w = libw(slot)
                if name == 'reset':
                    return sock_open(slot) and (reader or awaiting or (w is not None and w.drain_parked()))
                if name == 'disconnect':
                    return c is not None and (arg != 'frame' or reader)
                if name == 'closeDone':
                    return w is not None and w.close_parked()
                if name == 'send':
                    if c is None or c.state == ConnectionState.UNINITIALIZED:
                        return False
                    if arg == 'block' and user_send_parked(slot):
                        return False
                    return True
                if name == 'drainOk':
                    return w is not None and w.drain_parked()
                if name == 'sendTimeout':
                    if arg:
                        return (slot.task is not None and not slot.task.done()
                                and find_timer(loop, c, 'send', slot.task) is not None)
                    return any(not t.done() and find_timer(loop, c, 'send', t) is not None for t, _ in slot.sends)
                if name == 'restart':
                    return (slot.origin == 'server' and c is not None and c.state == ConnectionState.CLOSED
                            and (slot.task is None or slot.task.done()) and not (w is not None and w.close_parked()))
                raise ValueError(name)

            def do_new(origin, typF, slow, obf):
                slot = _Slot(len(slots), origin, typF, slow, obf)
                slots.append(slot)
                typ = 'F' if typF else 'P'
                if origin == 'direct':
                    slot.key = (f'10.0.{slot.idx}.1', 2000 + slot.idx)
                    by_key[slot.key] = slot
                    fn.writer_setup[slot.key] = setup_for(slot)
                    slot.task = asyncio.ensure_future(net._make_direct_connection(
                        slot.ticket, f'user{slot.idx}', typ, slot.key[0], slot.key[1], bool(obf)))
                elif origin == 'back':
                    slot.key = (f'10.0.{slot.idx}.1', 2000 + slot.idx)
                    by_key[slot.key] = slot
                    fn.writer_setup[slot.key] = setup_for(slot)
                    before = list(net._create_peer_connection_tasks)
                    server.send(ConnectToPeer.Response(
                        f'user{slot.idx}', typ, slot.key[0], 0 if obf else slot.key[1], slot.ticket, False,
                        obfuscated_port_amount=1 if obf else 0, obfuscated_port=slot.key[1] if obf else 0))
                    slot._before = before
                elif origin == 'incoming':
                    slot.key = (f'10.9.{slot.idx}.1', 4000 + slot.idx)
                    by_key[slot.key] = slot
                    fn.writer_setup[slot.key] = setup_for(slot)
                    fn.incoming(OBFS_PORT if obf else CLEAR_PORT, slot.key)
                elif origin == 'server':
                    slot.key = SERVER_ADDR
                    fn.writer_setup[slot.key] = setup_for(slot)
                    slot.conn = net.server_connection
                    slot.task = asyncio.ensure_future(net.connect_server())
                else:
                    raise ValueError(origin)
                return slot

            def do_op(slot, name, arg):
                c = slot.conn
                w = libw(slot)
                if name == 'connectOk':
                    slot.cfg = arg
                    fn.release_connect(slot.key, 'ok')
                elif name == 'connectFail':
                    # 'overflow': what open_connection does for a port > 65535 (not an OSError)
                    fn.release_connect(slot.key, 'overflow' if arg == 'overflow' else 'refuse')
                elif name == 'connectTimeout':
                    assert fire_timer(loop, c, 'connect', slot.task)
                elif name == 'cancelAttempt':
                    slot.task.cancel()
                elif name == 'firstFrame':
                    rr, rw = fn.rem[slot.key]
                    if arg in ('initP', 'initF'):
                        data = PeerInit.Request(f'peer{slot.idx}', arg[-1], 0).serialize()
                    elif arg in ('pierceP', 'pierceF'):
                        tk = 500 + slot.idx
                        f = PeerFuture(tk, f'peer{slot.idx}', arg[-1])
                        f.add_done_callback(partial(net._remove_connection_future, tk))
                        net._expected_connection_futures[tk] = f
                        data = PeerPierceFirewall.Request(tk).serialize()
                    elif arg == 'pierceUnknown':
                        data = PeerPierceFirewall.Request(999999).serialize()
                    elif arg == 'undecodable':
                        data = b'\x01\x00\x00\x00\x63'
                    else:
                        raise ValueError(arg)
                    rw.write(enc(slot, data))
                elif name == 'frame':
                    rr, rw = fn.rem[slot.key]
                    if slot.origin == 'server':
                        data = (GetUserStatus.Response('x', 1, False).serialize() if arg
                                else struct.pack('<II', 4, 0xFFFF))
                    else:
                        data = PeerSharesRequest.Request().serialize() if arg else struct.pack('<II', 4, 0xFFFF)
                    rw.write(enc(slot, data))
                elif name == 'partialEof':
                    rr, rw = fn.rem[slot.key]
                    rw.write(b'\x05\x00')
                    rw.close()
                    slot.remote_closed = True
                elif name == 'eof':
                    fn.rem[slot.key][1].close()
                    slot.remote_closed = True
                elif name == 'reset':
                    fn.rem[slot.key][1].reset()
                    slot.remote_closed = True
                elif name == 'readTimeout':
                    assert fire_timer(loop, c, 'read')
                elif name == 'disconnect':
                    slot._keep = getattr(slot, '_keep', []) + [asyncio.ensure_future(c.disconnect(CloseReason.REQUESTED))]
                    if arg == 'frame':
                        # a complete frame reaches the socket in the same loop iteration, behind the disconnect call
                        data = (GetUserStatus.Response('x', 1, False).serialize() if slot.origin == 'server'
                                else PeerSharesRequest.Request().serialize())
                        fn.rem[slot.key][1].write(enc(slot, data))
                elif name == 'closeDone':
                    if arg == 'timeout':
                        assert fire_timer(loop, c, 'close')
                    else:
                        w.release_close()
                elif name == 'send':
                    if w is not None and not w._closed:
                        if arg == 'block':
                            w.drain_block = True
                        elif arg == 'fail':
                            w.fail_after = len(w.sent)
                    msg = Ping.Request() if slot.origin == 'server' else PeerSharesRequest.Request()
                    slot.sends.append([asyncio.ensure_future(c.send_message(msg)), False])
                elif name == 'drainOk':
                    w.release_drain()
                elif name == 'sendTimeout':
                    if arg:
                        assert fire_timer(loop, c, 'send', slot.task)
                    else:
                        t = next(t for t, _ in slot.sends if not t.done() and find_timer(loop, c, 'send', t) is not None)
                        assert fire_timer(loop, c, 'send', t)
                elif name == 'restart':
                    slot.task = asyncio.ensure_future(net.connect_server())
                    slot.task_reported = False
                    slot.remote_closed = False
                else:
                    raise ValueError(name)

            def after_op(slot, name, arg):
                w = libw(slot)
                if w is not None:
                    w.drain_block = False          # only the calls that are parked now stay parked
                if slot.origin == 'back' and slot.task is None:
                    new = [t for t in net._create_peer_connection_tasks if t not in slot._before]
                    slot.task = new[0] if new else None
                    if slot.task is None:
                        # the task may already be finished and removed; cannot happen: it parks in open_connection
                        raise RuntimeError('connect-back task not found')
                if slot.origin == 'server' and slot.task is not None and slot.task.done() and not slot.task_reported:
                    # what client.py:212 does after a successful connect
                    if not slot.task.cancelled() and slot.task.exception() is None:
                        net.server_connection.start_reader_task()
                        if not srv_tasks or srv_tasks[-1].done():
                            srv_tasks.append(asyncio.ensure_future(server.handler(*fn.rem[SERVER_ADDR])))

            def results(slot) -> list:
                res = []
                if slot.task is not None and slot.task.done() and not slot.task_reported:
                    slot.task_reported = True
                    if slot.task.cancelled():
                        res.append('att:cancelled')
                    elif slot.task.exception() is not None:
                        res.append('att:fail')
                        slot.att_exc = type(slot.task.exception()).__name__
                    else:
                        res.append('att:ok')
                for ent in slot.sends:
                    t, rep = ent
                    if t.done() and not rep:
                        ent[1] = True
                        if t.cancelled():
                            res.append('send:cancelled')
                        elif t.exception() is None:
                            res.append('send:ret')
                        elif isinstance(t.exception(), ConnectionWriteError):
                            res.append('send:err')
                        else:
                            res.append('send:exc:' + type(t.exception()).__name__)
                ccs = [r for r in server.received if isinstance(r, CannotConnect.Request)]
                for r in ccs[seen_cc[0]:]:
                    res.append('cc' if r.ticket == slot.ticket else f'cc?{r.ticket}')
                seen_cc[0] = len(ccs)
                return sorted(res)

            def snapshot(slot) -> tuple[str, dict]:
                if slot is None:
                    # Network.disconnect(): events of every connection, grouped by connection (ascending)
                    ev = [tok for s in slots for (i, tok) in log if i == s.idx]
                    stray = [(i, tok) for (i, tok) in log if not isinstance(i, int) and i not in ('S', 'L')]
                    del log[:]
                    res = sorted(r for s in slots for r in results(s))
                else:
                    ev = [tok for (i, tok) in log if i == slot.idx]
                    stray = [(i, tok) for (i, tok) in log if i != slot.idx and i not in ('S', 'L')]
                    del log[:]
                    res = results(slot)
                reg = []
                for c in net.peer_connections:
                    reg.append(idx_of(c))
                reg_s = sorted(reg, key=str)
                st = [(s.conn.state.name if s.conn is not None else 'UNINITIALIZED') for s in slots]
                op = ['1' if sock_open(s) else '0' for s in slots]
                line = (f"ev={','.join(ev)} res={','.join(res)} reg={','.join(str(x) for x in reg_s)} "
                        f"st={','.join(st)} open={','.join(op)}")
                if stray:
                    line += f' STRAY={stray}'
                # facts for the monitor, taken from the harness' own view of sockets and tasks
                facts = {'reg': [str(x) for x in reg_s], 'conns': {}}
                for s in slots:
                    w = libw(s)
                    facts['conns'][str(s.idx)] = {
                        'origin': s.origin,
                        'open': bool(sock_open(s) or (w is not None and w.close_parked())),
                        'ended_by_remote': bool(s.remote_closed and not (w is not None and w.close_parked())),
                        'opening': bool(fn.connect_parked(s.key) and s.task is not None and not s.task.done()),
                        'state': s.conn.state.name if s.conn is not None else None,
                    }
                return line, facts

            net_tasks: list = []

            def new_enabled(origin, obf) -> bool:
                if origin == 'incoming':
                    return (OBFS_PORT if obf else CLEAR_PORT) in fn.listeners
                if origin == 'back':
                    w = fn.lib_writers.get(SERVER_ADDR)
                    rt = net.server_connection._reader_task
                    return w is not None and not w._closed and rt is not None and not rt.done()
                if origin == 'server':
                    return not any(s_.origin == 'server' for s_ in slots)
                return True

            executed, lines, facts_l, skipped = [], [], [], []
            for op in case['ops']:
                opno[0] = len(executed)
                if op[0] == 'new':
                    _, origin, typF, slow, obf = op
                    if not new_enabled(origin, obf):
                        skipped.append(op)
                        continue
                    slot = do_new(origin, typF, slow, obf)
                    await settle()
                    after_op(slot, 'new', None)
                    await settle()
                elif op[0] == 'net':
                    # Network.disconnect(), optionally with a connection that comes into existence in the same loop
                    # iteration, behind the call (accepted by the listening socket / requested by another task)
                    plan = []
                    for s_ in slots:
                        if s_.origin == 'back' and s_.task is not None and not s_.task.done():
                            plan.append([s_.idx, 'cancelAttempt'])
                        if (s_.origin == 'server' and s_.conn is not None) or \
                                (s_.conn is not None and any(c is s_.conn for c in net.peer_connections)):
                            plan.append([s_.idx, 'disconnect'])
                    if len(op) > 2 and isinstance(op[2], list):
                        extra = op[3] if len(op) > 3 else None        # an executed op being replayed: [.., plan, new?]
                    else:
                        extra = op[2:] if len(op) > 2 else None
                    if extra is not None and not new_enabled(extra[0], extra[3]):
                        extra = None
                    if not plan and extra is None:
                        skipped.append(op)
                        continue
                    net_tasks.append(asyncio.ensure_future(net.disconnect()))
                    nslot = do_new(*extra) if extra is not None else None
                    await settle()
                    if nslot is not None:
                        after_op(nslot, 'new', None)
                        await settle()
                    slot = None
                    op = ['net', 'disconnect', plan] + ([list(extra)] if extra is not None else [])
                else:
                    _, i, name = op[:3]
                    arg = op[3] if len(op) > 3 else None
                    if i >= len(slots) or not enabled(slots[i], name, arg):
                        skipped.append(op)
                        continue
                    slot = slots[i]
                    n = arg if name == 'disconnect' and isinstance(arg, int) else 1
                    for _ in range(n):
                        do_op(slot, name, arg)
                    await settle()
                    after_op(slot, name, arg)
                    await settle()
                line, facts = snapshot(slot)
                executed.append(op)
                lines.append(line)
                facts_l.append(facts)
            keep = (obs, bus, net, srv_tasks, net_tasks)  # noqa: F841  (strong refs until here)
            return {'executed': executed, 'lines': lines, 'facts': facts_l, 'skipped': skipped, 'full': list(full),
                    'hang': hang['hit'], 'sites': sorted(audit.sites),
                    'loop_exceptions': [e for e in loop.exceptions if e.get('type') not in (None, 'CancelledError')]}
        finally:
            fn.uninstall()
            audit.close()
            try:
                bus._events.clear()      # drop the bus' weak references now, not at interpreter exit
            except Exception:
                pass

    logging.disable(logging.CRITICAL)      # the library logs every scripted failure; nothing here reads the log
    try:
        res, _loop = simloop.run(main)
    finally:
        logging.disable(logging.NOTSET)
    return res


# --------------------------------------------------------------------------------------------
# model side
# --------------------------------------------------------------------------------------------

def _model_lines(executed: list) -> list[str]:
    out = ['reset']
    for op in executed:
        if op[0] == 'new':
            _, origin, typF, slow, _obf = op
            out.append(f'new {origin} {int(bool(typF))} {int(bool(slow))}')
        elif op[0] == 'net':
            # Network.disconnect() = cancel the running connect-back tasks, then disconnect() on the server connection
            # and on every connection registered at that moment; a connection created behind the call comes last
            ls = [f'at {i} {what}' for i, what in op[2]]
            if len(op) > 3:
                origin, typF, slow, _obf = op[3]
                ls.append(f'new {origin} {int(bool(typF))} {int(bool(slow))}')
            out.append('\n'.join(ls))
        else:
            _, i, name = op[:3]
            arg = op[3] if len(op) > 3 else None
            if name == 'disconnect':
                n = arg if isinstance(arg, int) else 1
                # n concurrent calls issued in the same loop iteration = n calls one after the other
                out.append(f'at {i} disconnect' + f'\nat {i} disconnect' * (n - 1))
            elif name in ('closeDone', 'connectFail'):
                out.append(f'at {i} {name}')
            elif name in ('frame', 'sendTimeout'):
                out.append(f'at {i} {name} {int(bool(arg))}')
            elif arg is not None:
                out.append(f'at {i} {name} {arg}')
            else:
                out.append(f'at {i} {name}')
    return out


def _merge_lines(group: list[str]) -> str:
    """n model answers of `disconnect n` -> one line (events concatenated, last state)."""
    if len(group) == 1:
        return group[0]
    evs, ress, last = [], [], None
    for g in group:
        parts = dict(p.split('=', 1) for p in g.split(' ') if '=' in p)
        if parts.get('ev'):
            evs.append(parts['ev'])
        if parts.get('res'):
            ress += parts['res'].split(',')
        last = parts
    if last is None:
        return group[-1]
    return (f"ev={','.join(evs)} res={','.join(sorted(ress))} reg={last.get('reg', '')} st={last.get('st', '')} "
            f"open={last.get('open', '')}")


# --------------------------------------------------------------------------------------------
# monitor: the property statement on the implementation trace (independent of the model)
# --------------------------------------------------------------------------------------------

def _monitor(case: dict, impl: dict) -> list[Violation]:
    vs: list[Violation] = []

    def add(sig, what, observed=None, required=None):
        vs.append(Violation(sig, what, {'kind': case.get('kind'), 'server': case.get('server', False),
                                        'ops': impl['executed']}, observed=observed, required=required))

    per: dict = {}
    for (opno, i, tok) in impl['full']:
        per.setdefault(str(i), []).append((opno, tok))
    origin_of = {}
    if impl['facts']:
        origin_of = {i: f['origin'] for i, f in impl['facts'][-1]['conns'].items()}
    for i, evs in per.items():
        if i.startswith('?') or i in ('S', 'L'):
            if i.startswith('?'):
                add('C10-unknown-connection', f'events for a connection object the scenario did not create: {i}', evs[:4])
            continue
        is_server = origin_of.get(i) == 'server'
        last = None
        closed_seen = 0
        for (opno, tok) in evs:
            name = tok.split(':')[0]
            if name in RANK:
                if last is not None and RANK[name] <= RANK[last]:
                    if is_server and last == 'CLOSED' and name == 'CONNECTING':
                        closed_seen = 0
                    else:
                        sig = ('C10-state-after-closed' if last == 'CLOSED' else 'C10-state-order')
                        add(sig, f'connection {i}: {name} reported after {last}', [t for _, t in evs],
                            'reported states only move forward (uninitialised, connecting, connected, closing, closed)')
                if name == 'CLOSED':
                    closed_seen += 1
                    if closed_seen > 1:
                        add('C10-closed-twice', f'connection {i}: CLOSED reported more than once', [t for _, t in evs])
                last = name
            elif tok == 'msg' and last == 'CLOSED':
                add('C10-delivery-after-closed', f'connection {i}: a message was delivered after CLOSED',
                    [t for _, t in evs], 'no MessageReceivedEvent after CLOSED')
            elif tok == 'wrote' and last == 'CLOSED':
                add('C10-send-after-closed', f'connection {i}: bytes were sent after CLOSED', [t for _, t in evs],
                    'no send succeeds after CLOSED')
    # registry at every quiescent point
    for n, facts in enumerate(impl['facts']):
        reg = set(facts['reg'])
        for x in reg:
            if x not in facts['conns']:
                add('C10-registry-inexact', f'registry holds an object the scenario does not know: {x}', facts)
        for i, f in facts['conns'].items():
            if f['origin'] == 'server' or f['state'] is None:
                continue
            last = None
            for (opno, tok) in per.get(i, []):
                if opno <= n and tok.split(':')[0] in RANK:
                    last = tok.split(':')[0]
            want = last != 'CLOSED' and (f['open'] or f['opening'])
            have = i in reg
            if want != have:
                what = ('is registered but neither open nor being opened by a running attempt (or already CLOSED)'
                        if have else 'is open / being opened but not registered')
                add('C10-registry-leak' if have else 'C10-registry-missing',
                    f'after op #{n} {impl["executed"][n]}: connection {i} {what}',
                    {'registered': have, 'last_reported': last, **f}, 'registry = open or opening connections')
    # a connection whose life ended was reported CLOSED
    if impl['facts']:
        facts = impl['facts'][-1]
        for i, f in facts['conns'].items():
            states = [t.split(':')[0] for _, t in per.get(i, []) if t.split(':')[0] in RANK]
            if states and not f['open'] and not f['opening'] and states[-1] != 'CLOSED':
                add('C10-never-closed', f'connection {i} has no socket and no running attempt but its last reported '
                    f'state is {states[-1]}', states, 'CLOSED is reported for every connection whose life ended')
            elif states and f.get('ended_by_remote') and states[-1] != 'CLOSED':
                add('C10-never-closed', f'connection {i}: the remote end closed/reset the socket while the library was '
                    f'reading from (or draining to) it, nothing is pending, but the last reported state is {states[-1]}',
                    states, 'CLOSED is reported for every connection whose life ended')
    if impl.get('hang'):
        add('C10-hang', 'the library spun without ever suspending (no quiescent moment is reached again); the spinning '
            f'task had to be killed by the harness after {HANG_S:.0f} s of wall time', impl['lines'][-3:],
            'every op is followed by a quiescent moment')
    for e in impl.get('loop_exceptions', []):
        if e.get('type') == '_Hang':
            continue
        add('C10-internal-error', 'exception reported to the loop exception handler', e)
    return vs


# --------------------------------------------------------------------------------------------
# generator
# --------------------------------------------------------------------------------------------

def _grid() -> list[dict]:
    cases = []

    def mk(kind, ops, server=False):
        cases.append({'kind': kind, 'server': server, 'ops': ops})

    tails = [[], [['at', 0, 'disconnect'], ['at', 0, 'send', 'ok']], [['at', 0, 'disconnect', 2]]]

    def closings(slow):
        # what may happen between CLOSING and CLOSED when wait_closed suspends
        if not slow:
            return [[]]
        return [[['at', 0, 'closeDone', 'release']], [['at', 0, 'closeDone', 'timeout']],
                [['at', 0, 'disconnect', 2], ['at', 0, 'send', 'ok'], ['at', 0, 'closeDone', 'release']],
                [['at', 0, 'cancelAttempt'], ['at', 0, 'closeDone', 'release']]]

    established_endings = [
        ('local', [['at', 0, 'disconnect']]),
        ('local2', [['at', 0, 'disconnect', 2]]),
        ('local-frame-behind', [['at', 0, 'disconnect', 'frame']]),
        ('eof', [['at', 0, 'eof']]),
        ('msg-eof', [['at', 0, 'frame', 1], ['at', 0, 'frame', 0], ['at', 0, 'frame', 1], ['at', 0, 'eof']]),
        ('reset', [['at', 0, 'reset']]),
        ('partial', [['at', 0, 'partialEof']]),
        ('read-timeout', [['at', 0, 'readTimeout']]),
        ('send-fail', [['at', 0, 'send', 'ok'], ['at', 0, 'send', 'fail']]),
        ('send-timeout', [['at', 0, 'send', 'block'], ['at', 0, 'sendTimeout', 0]]),
        ('send-drain-then-local', [['at', 0, 'send', 'block'], ['at', 0, 'drainOk'], ['at', 0, 'disconnect']]),
        ('send-parked-local', [['at', 0, 'send', 'block'], ['at', 0, 'disconnect']]),
        ('send-parked-reset', [['at', 0, 'send', 'block'], ['at', 0, 'reset']]),
        ('send-parked-eof', [['at', 0, 'send', 'block'], ['at', 0, 'eof']]),
    ]
    for origin in ('direct', 'back'):
        for typF in (0, 1):
            for obf in (0, 1):
                for slow in (0, 1):
                    new = ['new', origin, typF, slow, obf]
                    base = f'{origin}-{"F" if typF else "P"}{"-obf" if obf else ""}{"-slow" if slow else ""}'
                    for tail in tails:
                        mk(base + ':refused', [new, ['at', 0, 'connectFail']] + tail)
                        mk(base + ':connect-timeout', [new, ['at', 0, 'connectTimeout']] + tail)
                        mk(base + ':cancel-opening', [new, ['at', 0, 'cancelAttempt']] + tail)
                    for late in (['connectOk', 'ok'], ['connectOk', 'fail'], ['connectFail'], ['connectTimeout'],
                                 ['cancelAttempt']):
                        mk(base + ':local-while-opening', [new, ['at', 0, 'send', 'ok'], ['at', 0, 'disconnect'],
                                                           ['at', 0] + late, ['at', 0, 'disconnect']])
                    for cl in closings(slow):
                        mk(base + ':init-write-fails', [new, ['at', 0, 'connectOk', 'fail']] + cl + tails[1])
                        for mid in ([['at', 0, 'sendTimeout', 1]], [['at', 0, 'cancelAttempt']], [['at', 0, 'reset']],
                                    [['at', 0, 'disconnect']], [['at', 0, 'send', 'ok'], ['at', 0, 'disconnect']],
                                    [['at', 0, 'send', 'block'], ['at', 0, 'sendTimeout', 1]],
                                    [['at', 0, 'send', 'block'], ['at', 0, 'sendTimeout', 0]],
                                    [['at', 0, 'send', 'block'], ['at', 0, 'reset']]):
                            mk(base + ':init-drain-parked', [new, ['at', 0, 'connectOk', 'block']] + mid + cl + tails[1])
                    mk(base + ':init-drain-ok', [new, ['at', 0, 'connectOk', 'block'], ['at', 0, 'drainOk'],
                                                  ['at', 0, 'send', 'ok'], ['at', 0, 'disconnect']]
                       + closings(slow)[0] + tails[1])
                    for name, ending in established_endings:
                        if typF and any(o[2] in ('eof', 'frame', 'partialEof', 'readTimeout') or o[-1] == 'frame' for o in ending):
                            continue      # nobody reads an 'F' connection here (the transfer code would)
                        if typF and name in ('reset',):
                            continue
                        for cl in closings(slow):
                            mk(base + ':' + name, [new, ['at', 0, 'connectOk', 'ok']] + ending + cl + tails[1])
    for obf in (0, 1):
        for slow in (0, 1):
            new = ['new', 'incoming', 0, slow, obf]
            base = f'incoming{"-obf" if obf else ""}{"-slow" if slow else ""}'
            for cl in closings(slow):
                for name, ending in [('eof-before-init', [['at', 0, 'eof']]), ('reset-before-init', [['at', 0, 'reset']]),
                                     ('partial-before-init', [['at', 0, 'partialEof']]),
                                     ('timeout-before-init', [['at', 0, 'readTimeout']]),
                                     ('local-before-init', [['at', 0, 'disconnect']]),
                                     ('local2-before-init', [['at', 0, 'disconnect', 2]]),
                                     ('undecodable-init', [['at', 0, 'firstFrame', 'undecodable']]),
                                     ('unknown-ticket', [['at', 0, 'firstFrame', 'pierceUnknown']]),
                                     ('send-fail-before-init', [['at', 0, 'send', 'fail']]),
                                     ('send-timeout-before-init', [['at', 0, 'send', 'block'], ['at', 0, 'sendTimeout', 0]])]:
                    mk(base + ':' + name, [new] + ending + cl + tails[1])
                for first in ('initP', 'initF', 'pierceP', 'pierceF'):
                    for name, ending in established_endings:
                        if first[-1] == 'F' and (name == 'reset' or any(
                                o[2] in ('eof', 'frame', 'partialEof', 'readTimeout') or o[-1] == 'frame' for o in ending)):
                            continue
                        mk(base + f':{first}:{name}', [new, ['at', 0, 'firstFrame', first]] + ending + cl + tails[1])
    # Network.disconnect(): alone, and with a connection that is accepted / requested while it is in progress (in the
    # same loop iteration behind the call, or in the window a slow wait_closed opens)
    behind = [None, ['incoming', 0, 0, 0], ['incoming', 0, 1, 1], ['direct', 0, 0, 0], ['direct', 1, 1, 1]]
    setups = {
        'empty': [],
        'direct-established': [['new', 'direct', 0, 0, 0], ['at', 0, 'connectOk', 'ok']],
        'direct-established-slow': [['new', 'direct', 0, 1, 0], ['at', 0, 'connectOk', 'ok']],
        'direct-opening': [['new', 'direct', 0, 0, 0]],
        'direct-init-parked': [['new', 'direct', 0, 1, 0], ['at', 0, 'connectOk', 'block']],
        'back-opening': [['new', 'back', 0, 0, 0]],
        'back-init-parked-slow': [['new', 'back', 0, 1, 0], ['at', 0, 'connectOk', 'block']],
        'back-closing': [['new', 'back', 0, 1, 0], ['at', 0, 'connectOk', 'fail']],
        'incoming-silent': [['new', 'incoming', 0, 0, 0]],
        'incoming-silent-slow': [['new', 'incoming', 0, 1, 1]],
        'incoming-established-slow': [['new', 'incoming', 0, 1, 0], ['at', 0, 'firstFrame', 'initP'], ['at', 0, 'send', 'block']],
        'two': [['new', 'incoming', 0, 1, 0], ['at', 0, 'firstFrame', 'initP'], ['new', 'direct', 0, 0, 1],
                ['at', 1, 'connectOk', 'ok']],
    }
    for sname, setup in setups.items():
        n0 = sum(1 for o in setup if o[0] == 'new')
        for b in behind:
            ops = list(setup) + [['net', 'disconnect'] + (b if b else [])]
            j = n0                       # index of the connection created behind the call
            if b and b[0] == 'direct':
                ops += [['at', j, 'connectOk', 'ok'], ['at', j, 'frame', 1]]
            if b and b[0] == 'incoming':
                ops += [['at', j, 'firstFrame', 'initP'], ['at', j, 'frame', 1]]
            ops += [['at', k, 'closeDone', 'release'] for k in range(n0)]
            if b:
                ops += [['at', j, 'send', 'ok'], ['net', 'disconnect'], ['at', j, 'closeDone', 'release']]
            ops += [['new', 'incoming', 0, 0, 0], ['new', 'direct', 0, 0, 0], ['at', 0, 'disconnect']]
            mk(f'netdisconnect:{sname}:{"+".join(str(x) for x in b) if b else "alone"}', ops)
        # the window a slow close opens: a connection requested while the gather is parked
        if 'slow' in sname:
            mk(f'netdisconnect:{sname}:window',
               list(setup) + [['net', 'disconnect'], ['new', 'direct', 0, 0, 0], ['at', n0, 'connectOk', 'ok']]
               + [['at', k, 'closeDone', 'release'] for k in range(n0)]
               + [['at', n0, 'frame', 1], ['net', 'disconnect'], ['at', n0, 'send', 'ok']])
    mk('netdisconnect:server', [['new', 'server', 0, 1, 0], ['at', 0, 'connectOk', 'ok'], ['new', 'incoming', 0, 0, 0],
                                ['net', 'disconnect', 'direct', 0, 0, 0], ['at', 0, 'closeDone', 'release'],
                                ['at', 2, 'connectOk', 'ok'], ['at', 0, 'restart'], ['at', 0, 'connectOk', 'ok'],
                                ['net', 'disconnect']], server=True)
    # a connect that fails with something that is not an OSError (a port > 65535 makes open_connection raise
    # OverflowError; an unencodable host name UnicodeError)
    for origin in ('direct', 'back'):
        for slow in (0, 1):
            mk(f'{origin}{"-slow" if slow else ""}:connect-raises-non-oserror',
               [['new', origin, 0, slow, 0], ['at', 0, 'connectFail', 'overflow'], ['at', 0, 'disconnect'],
                ['at', 0, 'send', 'ok']])
            mk(f'{origin}{"-slow" if slow else ""}:local-while-opening:connect-raises-non-oserror',
               [['new', origin, 0, slow, 0], ['at', 0, 'disconnect'], ['at', 0, 'connectFail', 'overflow']])
    mk('server:connect-raises-non-oserror', [['new', 'server', 0, 0, 0], ['at', 0, 'connectFail', 'overflow'],
                                             ['at', 0, 'restart'], ['at', 0, 'connectOk', 'ok']], server=True)
    # the server connection: the only one that may go CLOSED -> CONNECTING
    for slow in (0, 1):
        new = ['new', 'server', 0, slow, 0]
        for cl in closings(slow):
            for name, ending in established_endings:
                mk(f'server{"-slow" if slow else ""}:{name}:restart',
                   [new, ['at', 0, 'connectOk', 'ok']] + ending + cl
                   + [['at', 0, 'restart'], ['at', 0, 'connectOk', 'ok'], ['at', 0, 'frame', 1], ['at', 0, 'send', 'ok'],
                      ['at', 0, 'disconnect']] + closings(slow)[0]
                   + [['at', 0, 'restart'], ['at', 0, 'connectFail'], ['at', 0, 'restart'], ['at', 0, 'cancelAttempt'],
                      ['at', 0, 'restart'], ['at', 0, 'disconnect'], ['at', 0, 'connectOk', 'ok'], ['at', 0, 'restart'],
                      ['at', 0, 'connectTimeout']], server=True)
    return cases


OPS_W = [('connectFail', 'overflow', 1), ('connectOk', 'ok', 8), ('connectOk', 'block', 3), ('connectOk', 'fail', 2), ('connectFail', None, 3),
         ('connectTimeout', None, 2), ('cancelAttempt', None, 4), ('firstFrame', 'initP', 4), ('firstFrame', 'initF', 1),
         ('firstFrame', 'pierceP', 2), ('firstFrame', 'pierceF', 1), ('firstFrame', 'pierceUnknown', 1),
         ('firstFrame', 'undecodable', 1), ('frame', 1, 5), ('frame', 0, 2), ('partialEof', None, 1), ('eof', None, 2),
         ('reset', None, 2), ('readTimeout', None, 2), ('disconnect', None, 4), ('disconnect', 2, 2), ('disconnect', 'frame', 2),
         ('closeDone', 'release', 5), ('closeDone', 'timeout', 2), ('send', 'ok', 5), ('send', 'block', 3),
         ('send', 'fail', 2), ('drainOk', None, 4), ('sendTimeout', 0, 2), ('sendTimeout', 1, 2)]


def _gen_random(rng: random.Random) -> dict:
    ncon = rng.randint(1, 3)
    ops: list = []
    made = 0
    n = rng.randint(6, 22)
    pool = [(a, b) for a, b, w in OPS_W for _ in range(w)]
    for _ in range(n):
        if made < ncon and (made == 0 or rng.random() < 0.25):
            origin = rng.choice(['direct', 'direct', 'back', 'incoming', 'incoming'])
            typF = rng.random() < 0.25 if origin != 'incoming' else 0
            ops.append(['new', origin, int(typF), int(rng.random() < 0.5), int(rng.random() < 0.3)])
            made += 1
            continue
        if rng.random() < 0.06:
            b = rng.choice([None, None, ['incoming', 0, int(rng.random() < 0.5), int(rng.random() < 0.3)],
                            ['direct', int(rng.random() < 0.2), int(rng.random() < 0.5), 0]])
            ops.append(['net', 'disconnect'] + (b if b else []))
            if b:
                made += 1
            continue
        name, arg = rng.choice(pool)
        i = rng.randrange(made)
        ops.append(['at', i, name] + ([arg] if arg is not None else []))
    return {'kind': 'random', 'server': False, 'ops': ops}


def _eval_case(case):
    try:
        return _run_impl(case)
    except AssertionError:
        raise
    except Exception as e:
        import traceback
        return {'harness_error': f'{type(e).__name__}: {e}', 'tb': traceback.format_exc()[-2500:]}


# known inputs, always replayed (the replay inputs of fixes/C10-*.md)
WITNESSES = [
    {'kind': 'witness:accepted-during-network-disconnect', 'server': False,
     'ops': [['new', 'direct', 0, 0, 0], ['at', 0, 'connectOk', 'ok'], ['net', 'disconnect', 'incoming', 0, 0, 0]]},
    {'kind': 'witness:connect-raises-non-oserror', 'server': False,
     'ops': [['new', 'direct', 0, 0, 0], ['at', 0, 'connectFail', 'overflow']]},
    {'kind': 'witness:silent-incoming-peer', 'server': False,
     'ops': [['new', 'incoming', 0, 0, 0], ['net', 'disconnect']]},
    {'kind': 'witness:accept-eof-before-init', 'server': False,
     'ops': [['new', 'incoming', 0, 0, 0], ['at', 0, 'eof']]},
    {'kind': 'witness:accept-bad-init', 'server': False,
     'ops': [['new', 'incoming', 0, 0, 0], ['at', 0, 'firstFrame', 'undecodable']]},
    {'kind': 'witness:cancel-during-open', 'server': False,
     'ops': [['new', 'direct', 0, 0, 0], ['at', 0, 'cancelAttempt']]},
    {'kind': 'witness:disconnect-during-open', 'server': False,
     'ops': [['new', 'direct', 0, 0, 0], ['at', 0, 'disconnect'], ['at', 0, 'connectOk', 'ok']]},
]


class C10(Property):
    id = 'C10'
    props_module = 'AioslskVerif.Props.C10'
    driver_module = 'AioslskVerif.Driver.C10'
    rule = ('the full grid origin {direct, connect-back, incoming clear/obfuscated port, server} x type {P,F} x '
            'obfuscated x wait_closed {returns, suspends} x ending {refused, connect timeout, cancelled while opening / '
            'while sending the init message / while closing, local disconnect (1 or 2 concurrent calls) in every phase, '
            'init write fails / drain times out / reset, EOF / reset / partial frame / read timeout before and after the '
            'init message, undecodable init, unknown pierce ticket, send fails / times out, server restart, connect raising a '
            'non-OSError}, each followed '
            'by further disconnect/send calls; Network.disconnect() over 12 set-ups, alone and with a connection accepted / '
            'requested in the same loop iteration behind the call or in the window a slow wait_closed opens (model: cancel '
            'of the running connect-back tasks + disconnect() on the server connection and every registered connection); '
            'plus random op sequences (6..22 ops over 1..3 connections) derived from '
            'VERIF_SEED. A case is non-trivial when a connection was reported CLOSED and at least 3 ops were executed; '
            'distinct = distinct executed op list')
    assumptions = [
        'each environment completion (connect result, bytes, EOF/reset, timer, drain/wait_closed return, API call) is '
        'processed to quiescence before the next one; n concurrent disconnect() calls issued in one loop iteration are '
        'compared with n sequential calls of the model',
        'EventBus listeners of the state/message events do not suspend',
        'nobody but the reader loop / accept handler reads from a connection (type F connections are not read here), '
        'so EOF/reset/frames are only delivered to a parked reader',
        'the server connection stays connected while a connect-back attempt reports CannotConnect',
    ]
    modelled = ('Connection.set_state; ListeningConnection.accept; DataConnection.connect/disconnect, _read/_send error '
                'arms, send_message, _message_reader_loop; Network registry append/remove sites, _make_direct_connection, '
                '_handle_connect_to_peer, on_peer_accepted, _finalize_peer_connection. Exercised only: obfuscation, '
                'message codec, EventBus, asyncio streams/timeouts (through the gated fake net)')

    def _cases(self, seed, tier, widen):
        rng = random.Random(f'C10-{seed}')
        n = (4000 if tier == "quick" else 80000) * widen
        cases = list(WITNESSES) + _grid() + [_gen_random(rng) for _ in range(n)]
        return cases

    def correspondence(self, seed, tier, model_ok, widen=1):
        res = KResult()
        cases = self._cases(seed, tier, widen)
        impl = common.parallel_map(_eval_case, cases)
        for c, io in zip(cases, impl):
            if io.get('harness_error'):
                raise RuntimeError(f'C10 harness error: {io["harness_error"]}\n{io.get("tb")}\ncase={c}')
        model = None
        if model_ok:
            lines, spans = [], []
            for io in impl:
                ls = _model_lines(io['executed'])
                flat = '\n'.join(ls).split('\n')
                groups = []
                pos = len(lines) + 1
                for l in ls[1:]:
                    k = l.count('\n') + 1
                    groups.append((pos, k))
                    pos += k
                spans.append(groups)
                lines += flat
            out = common.run_driver(self.driver_file, lines)
            model = [[_merge_lines(out[a:a + k]) for a, k in groups] for groups in spans]
        else:
            res.model_available = False
        res.disagreements += site_breaks(cases, impl)
        res.count('await-sites-seen', len({x for io in impl for x in io.get('sites', [])}))
        for i, c in enumerate(cases):
            io = impl[i]
            res.evaluations += 1
            res.count('kind:' + c['kind'].split(':')[0].split('-')[0])
            res.count('ops-executed', len(io['executed']))
            res.count('ops-skipped(not enabled)', len(io['skipped']))
            for op in io['executed']:
                res.count('op:' + ('net-disconnect' + ('+new' if len(op) > 3 else '') if op[0] == 'net'
                                   else op[0] if op[0] == 'new' else op[2]))
            for l in io['lines']:
                for tok in l.split(' ')[0][3:].split(','):
                    if tok:
                        res.count('event:' + tok)
            closed = any('CLOSED' in l.split(' ')[0] for l in io['lines'])
            if closed and len(io['executed']) >= 3:
                res.nontrivial_keys.add(common.sha(io['executed']))
            if model is not None:
                res.traces_validated += 1
                if model[i] != io['lines']:
                    k = next((j for j, (a, b) in enumerate(zip(model[i], io['lines'])) if a != b),
                             min(len(model[i]), len(io['lines'])))
                    res.disagreements.append(Disagreement(
                        {'kind': c['kind'], 'server': c.get('server', False), 'ops': io['executed']},
                        io['lines'][k] if k < len(io['lines']) else None,
                        model[i][k] if k < len(model[i]) else None,
                        f'op #{k}: {io["executed"][k] if k < len(io["executed"]) else ""}'))
            res.violations += _monitor(c, io)
            if len(res.samples) < 3 and c['kind'].startswith('witness'):
                res.samples.append({'case': c, 'impl': io['lines']})
        return res

    def replay(self, case):
        io = _eval_case(case)
        if io.get('harness_error'):
            raise RuntimeError(io['harness_error'] + '\n' + io.get('tb', ''))
        return _monitor(case, io)

    def known_witnesses(self):
        return []


PROPERTY = C10()
