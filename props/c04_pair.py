"""C04, pair level: two unmodified SoulSeekClients + a simulated server on one FakeNet (virtual time).

The downloader asks for a file the uploader shares; the i-th file (F) connection is reset after ``cuts[i]``
file bytes (optionally the peer connections that exist at that moment are broken too: ``pfaults`` — the next control
write of the chosen side fails and the writer is told); after the last scripted cut nothing fails any more. Monitor (the property statement on what the
two real clients did): offsets on the wire equal the local file size at that moment, the local file is
always a prefix of the shared file, COMPLETE only with identical bytes, and once the faults stop both
transfers reach COMPLETE without any API call.
"""
from __future__ import annotations

import asyncio
import os
import random
import struct

from vlib import fakenet, simloop, simserver
from vlib.common import Violation
from vlib.simloop import settle, advance

SETTLE_AFTER_FAULTS = 3600.0       # virtual seconds the pair gets once the faults have stopped


def _pat(mul, add, start, n):
    return bytes((((i % 251) * mul + (i // 251) * 7 + add) % 256) for i in range(start, start + n))


LATENCY = 0.02                     # one-way delay of every byte (virtual seconds)


def _add_latency(w, loop, lat: dict, cut: dict | None = None):
    """Bytes written on `w` reach the other reader `latency` later, in order; close / reset flush what is
    in flight first. (With zero delay a reply can overtake the coroutine that is about to wait for it —
    an artefact no real network shows.)"""
    from collections import deque
    q = deque()
    orig_deliver, orig_close, orig_reset = w._deliver, w.close, w.reset

    def pump():
        if q:
            orig_deliver(q.popleft())

    def deliver(data):
        if not data:
            return
        data = bytes(data)
        if cut is not None and cut.get('cut_at') is not None:
            # the path dies after `cut_at` bytes of this direction: the receiver is told at once (`on_cut`), the
            # sender keeps writing into the void until it is told too
            if cut.get('dead'):
                return
            room = cut['cut_at'] - cut.get('passed', 0)
            if len(data) > room:         # (a cut that lets everything through is no fault, as for `fail_after`)
                data = data[:room]
                cut['dead'] = True
                if data:
                    q.append(data)
                    loop.call_later(lat['v'], pump)
                loop.call_later(lat['v'], cut['on_cut'])
                return
            cut['passed'] = cut.get('passed', 0) + len(data)
        split = lat.get('split')
        if split and len(data) <= 12:
            # hand-shake bytes of a file connection (4-byte ticket, 8-byte offset): TCP may deliver them in pieces
            cuts = [1] * len(data) if split['mode'] == 'bytes' else [1, len(data) - 1] if split['mode'] == 'first' \
                else [len(data) - 1, 1]
            pos = 0
            for i, c in enumerate(x for x in cuts if x > 0):
                q.append(data[pos:pos + c])
                pos += c
                loop.call_later(lat['v'] + i * split['gap'], pump)
            return
        q.append(data)
        loop.call_later(lat['v'], pump)

    def flush():
        while q:
            orig_deliver(q.popleft())

    def close():
        flush()
        orig_close()

    def reset():
        flush()
        orig_reset()
    w._deliver, w.close, w.reset = deliver, close, reset
    w.flush_in_flight = flush
    w.in_flight = q


class _Server:
    """SimServer plus the few requests two clients need to find each other."""

    def __init__(self, ports: dict):
        self.ports = ports                      # username -> listening port
        self.srv = simserver.SimServer()
        self.srv.on_request = self.on_request
        self.writers = {}                       # username -> writer of its server session

    def on_request(self, srv, writer, msg):
        m = srv.m
        if isinstance(msg, m.Login.Request):
            self.writers[msg.username] = writer
        elif isinstance(msg, m.GetPeerAddress.Request):
            port = self.ports.get(msg.username)
            if port is None:
                writer.write(m.GetPeerAddress.Response(msg.username, '0.0.0.0', 0, 0, 0).serialize())
            else:
                writer.write(m.GetPeerAddress.Response(msg.username, '10.0.0.1', port, 0, 0).serialize())
        elif isinstance(msg, m.AddUser.Request):
            from aioslsk.protocol.primitives import UserStats
            exists = msg.username in self.ports
            writer.write(m.AddUser.Response(
                msg.username, exists, status=2 if exists else None,
                user_stats=UserStats(0, 0, 0, 0) if exists else None,
                country_code='XX' if exists else None).serialize())
        elif isinstance(msg, m.GetUserStatus.Request):
            writer.write(m.GetUserStatus.Response(msg.username, 2 if msg.username in self.ports else 0, False).serialize())


def _frames(buf: bytes):
    pos = 0
    while pos + 4 <= len(buf):
        (n,) = struct.unpack('<I', buf[pos:pos + 4])
        if pos + 4 + n > len(buf):
            return
        yield buf[pos:pos + 4 + n]
        pos += 4 + n


def _ctl_sample(dl, ul, pconns) -> str:
    """`ctl <d> <rq> <u> <toU> <toD>`: download / upload as the control-plane model sees them, and the control
    messages that are on their way (in the latency queues of the P connections, or about to be written)"""
    from aioslsk.transfer.state import TransferState as TS
    from aioslsk.protocol.messages import (PeerMessage, PeerTransferQueue, PeerTransferRequest, PeerTransferReply,
                                           PeerUploadFailed)
    dv = dl.state.VALUE
    d = {TS.VIRGIN: 'queued', TS.QUEUED: 'queued', TS.INITIALIZING: 'initializing', TS.DOWNLOADING: 'downloading',
         TS.INCOMPLETE: 'incomplete', TS.COMPLETE: 'complete'}.get(dv)
    if d is None:
        d = 'incomplete' if (dv == TS.FAILED and dl.fail_reason is None) else 'user'
    if ul is None:
        u = 'none'
    else:
        uv = ul.state.VALUE
        u = {TS.VIRGIN: 'none', TS.QUEUED: 'queued', TS.INITIALIZING: 'initializing', TS.UPLOADING: 'uploading',
             TS.COMPLETE: 'complete'}.get(uv)
        if u is None:
            u = 'failed' if (uv == TS.FAILED and ul.fail_reason is None) else 'refused'
    to_u, to_d = '', ''
    for who, a_w, b_w in pconns:
        for w, sender in ((a_w, who), (b_w, 'up' if who == 'down' else 'down')):
            for fr in _frames(b''.join(w.in_flight)):
                try:
                    m = PeerMessage.deserialize_request(fr)
                except Exception:
                    continue
                if sender == 'down':
                    if isinstance(m, PeerTransferQueue.Request):
                        to_u += 'q'
                    elif isinstance(m, PeerTransferReply.Request):
                        to_u += 'o' if m.allowed else 'n'
                else:
                    if isinstance(m, PeerTransferRequest.Request):
                        to_d += 'r'
                    elif isinstance(m, PeerUploadFailed.Request):
                        to_d += 'f'
    if ul is not None and u == 'failed' and ul._transfer_task is not None and not ul._transfer_task.done():
        to_d += 'f'         # `_upload_file` is about to send PeerUploadFailed (waiting for a peer connection)
    return f"ctl {d} {1 if dl.remotely_queued else 0} {u} {to_u or '-'} {to_d or '-'}"


async def _pair_main(loop, case: dict, tmp: str):
    from aioslsk.client import SoulSeekClient
    from aioslsk.settings import Settings
    from aioslsk.transfer.state import TransferState
    N = case['flen']
    F = _pat(case['mul'], case['add'], 0, N)
    if case.get('second'):
        return await _multi_main(loop, case, tmp)
    net = fakenet.FakeNet().install()
    vs, obs = [], []

    def V(sig, what, **kw):
        vs.append(Violation(sig, what, case, **kw))

    clients = []
    try:
        ports = {'down': 61000, 'up': 62000}
        server = _Server(ports)
        net.endpoints[2416] = fakenet.Endpoint('accept', server.srv.handler)
        share = os.path.join(tmp, 'up', 'shared', 'music')
        os.makedirs(share)
        with open(os.path.join(share, 'song.bin'), 'wb') as f:
            f.write(F)
        for name in ('down', 'up'):
            dl = os.path.join(tmp, name, 'downloads')
            os.makedirs(dl, exist_ok=True)
            s = Settings(
                credentials={'username': name, 'password': 'pw'},
                network={'server': {'hostname': 'srv', 'port': 2416, 'reconnect': {'auto': False}},
                         'listening': {'port': ports[name], 'obfuscated_port': ports[name] + 1},
                         'upnp': {'enabled': False},
                         'limits': {'upload_speed_kbps': case.get('lim_up', 0),
                                    'download_speed_kbps': case.get('lim_down', 0)}},
                shares={'scan_on_start': False, 'download': dl,
                        'directories': ([{'path': os.path.join(tmp, 'up', 'shared'), 'share_mode': 'everyone'}]
                                        if name == 'up' else [])})
            clients.append(SoulSeekClient(s))
        down, up = clients
        # ---- fault injection: the k-th connection that announces itself as a file connection
        cuts = list(case['cuts'])
        state = {'fconn': 0, 'offsets': [], 'dl_path': None, 'pconns': [], 'pfailed': [], 'pw': {'up': 0, 'down': 0}}
        ctl_lines: list = []
        real_make_pair = net.make_pair
        pfaults = list(case.get('pfaults') or [])

        def arm_failing_write(w, other, n: int, skip: int = 0):
            """the next `n` writes of this end of a peer (P) connection fail: the writer is TOLD (ConnectionResetError
            -> the library raises ConnectionWriteError and closes the connection); nothing that a write had accepted
            before is lost — a write that would find data still on its way to this end goes through, the fault waits
            for the next one; the first `skip` writes still get through (the break is noticed at a later message)"""
            left = {'n': n, 'skip': skip}
            plain = w.write

            def write(data):
                if left['n'] <= 0 or w._closed or other.in_flight:
                    return plain(data)
                if left['skip'] > 0:
                    left['skip'] -= 1
                    return plain(data)
                left['n'] -= 1
                state['pfailed'].append((w.label, len(bytes(data))))
                raise ConnectionResetError('scripted: the peer connection was reset')
            w.write = write

        def p_fault(idx: int):
            """the moment the first end learns that file connection `idx` broke: whatever broke it also broke the
            peer connection(s) between the two clients — seen by the chosen side(s) at their next control write"""
            if idx >= len(pfaults) or not pfaults[idx]:
                return
            spec = pfaults[idx]
            if spec.get('mode') == 'unreachable':
                # the peer connections are closed (both ends see it) and for `window` seconds nobody can connect to
                # `who`: a message for that client takes the whole connection attempt (direct: refused, indirect:
                # 60 s without an answer) and then fails with PeerConnectionError
                for _who, a_w, _b_w in list(state['pconns']):
                    if not a_w._closed:
                        a_w.close()
                prts = [ports[spec['who']], ports[spec['who']] + 1]
                for prt in prts:
                    net.endpoints[prt] = fakenet.Endpoint('refuse')
                loop.call_later(spec['window'], lambda: [net.endpoints.pop(prt, None) for prt in prts])
                state['pfailed'].append(('unreachable', spec['who'], spec['window']))
                return

            def arm_all():
                for who, a_w, b_w in list(state['pconns']):
                    for side in (('up', 'down') if spec['who'] == 'both' else (spec['who'],)):
                        w, other = (a_w, b_w) if who == side else (b_w, a_w)
                        if not w._closed:
                            arm_failing_write(w, other, spec.get('n', 1), spec.get('skip', 0))
            if spec.get('delay'):
                loop.call_later(spec['delay'], arm_all)
            else:
                arm_all()

        pwrites = {(w, n) for w, n in (case.get('pwrites') or [])}
        port_owner = {}
        for nm, prt in ports.items():
            port_owner[prt] = nm
            port_owner[prt + 1] = nm

        def count_control_writes(w, other, side: str, conn: dict):
            """`pwrites`: the n-th write this client makes on a peer (P) connection (PeerInit frames included) fails —
            same kind of fault as `arm_failing_write`. NOT generated (replay instrument for a side observation outside
            C04's fault class: a queue request that cannot be delivered while the download is already QUEUED changes
            no state, requests no management cycle and is not retried — e.g. `pwrites: [["down", 1]]`)"""
            plain = w.write

            def write(data):
                if conn['typ'] is None and conn['first'] is w:
                    d = bytes(data)
                    try:
                        (ulen,) = struct.unpack('<I', d[5:9])
                        conn['typ'] = d[9 + ulen + 4:9 + ulen + 5].decode() if d[4] == 1 else '?'
                    except (IndexError, struct.error, UnicodeDecodeError):
                        conn['typ'] = '?'
                if conn['typ'] == 'P' and not w._closed:
                    if not conn.get('shift_' + side):
                        state['pw'][side] += 1
                    if (side, state['pw'][side]) in pwrites:
                        if other.in_flight:
                            conn['shift_' + side] = True         # wait for a write that loses nothing
                        else:
                            conn['shift_' + side] = False
                            pwrites.discard((side, state['pw'][side]))
                            state['pfailed'].append((side, state['pw'][side], len(bytes(data))))
                            raise ConnectionResetError('scripted: the peer connection was reset')
                return plain(data)
            w.write = write

        def make_pair(remote_addr):
            a_reader, a_writer, b_reader, b_writer = real_make_pair(remote_addr)
            lat = {'v': LATENCY}
            lat_a: dict = {}
            _add_latency(a_writer, loop, lat, lat_a)
            _add_latency(b_writer, loop, lat)
            seen = {'init': False}
            owner = port_owner.get(remote_addr[1]) if isinstance(remote_addr, tuple) else None
            if pwrites and owner is not None:
                conn = {'typ': None, 'first': a_writer}
                count_control_writes(a_writer, b_writer, 'down' if owner == 'up' else 'up', conn)
                count_control_writes(b_writer, a_writer, owner, conn)

            def half_visible_reset():
                """the uploader's end fails at once; the downloader's end learns of it `rst_delay` later (or never
                before its own read time-out) — so PeerUploadFailed may arrive before or after the break is seen"""
                a_writer.flush_in_flight()
                if a_writer._closed:
                    return
                if seen.get('fidx') is not None:
                    p_fault(seen['fidx'])
                a_writer._closed = True
                net.closed_count += 1
                if a_reader.exception() is None and not a_reader.at_eof():
                    a_reader.set_exception(ConnectionResetError('scripted reset'))

                def far_end():
                    if b_reader.exception() is None and not b_reader.at_eof():
                        b_reader.set_exception(ConnectionResetError('scripted reset (delayed)'))
                    b_writer._closed = True
                loop.call_later(case.get('rst_delay', 0.0), far_end)

            def on_write_a(data):
                # first frame of the connecting side: PeerInit(username, typ, ticket)
                if seen['init']:
                    return
                seen['init'] = True
                buf = bytes(a_writer.sent)
                try:
                    if buf[4] == 1:
                        (ulen,) = struct.unpack('<I', buf[5:9])
                        typ = buf[9 + ulen + 4:9 + ulen + 5].decode()
                        if typ == 'P':
                            lat['v'] = case.get('lat_p', LATENCY)
                            who = buf[9:9 + ulen].decode()
                            state['pconns'].append((who, a_writer, b_writer))
                        if typ == 'F':
                            lat['v'] = case.get('lat_f', LATENCY)
                            if case.get('hs_split'):
                                lat['split'] = {'mode': case['hs_split'], 'gap': case.get('hs_gap', 0.001)}
                            a_writer.reset = half_visible_reset
                            idx = state['fconn']
                            state['fconn'] += 1
                            seen['fidx'] = idx
                            if idx < len(cuts) and case.get('rst_first') == 'down':
                                # the DOWNLOADER learns of the break first (after `cuts[idx]` file bytes); the
                                # uploader goes on writing and is told `rst_delay` later
                                lat_a['cut_at'] = len(buf) + 4 + cuts[idx]
                                lat_a['passed'] = 0

                                def on_cut():
                                    p_fault(idx)
                                    if b_reader.exception() is None and not b_reader.at_eof():
                                        b_reader.set_exception(ConnectionResetError('scripted reset (downloader first)'))
                                    b_writer._closed = True

                                    def near_end():
                                        if a_reader.exception() is None and not a_reader.at_eof():
                                            a_reader.set_exception(ConnectionResetError('scripted reset (delayed)'))
                                        if not a_writer._closed:
                                            a_writer._closed = True
                                            net.closed_count += 1
                                    loop.call_later(case.get('rst_delay', 0.0), near_end)
                                lat_a['on_cut'] = on_cut
                            elif idx < len(cuts):
                                # PeerInit frame + 4 ticket bytes, then `cuts[idx]` file bytes get through
                                a_writer.fail_after = len(buf) + 4 + cuts[idx]

                            def on_write_b(d, w=b_writer):
                                if len(w.sent) == 8:        # the offset
                                    off = struct.unpack('<Q', bytes(w.sent))[0]
                                    path = state['dl_path']()
                                    try:
                                        size = os.path.getsize(path) if path else 0
                                    except OSError:
                                        size = 0
                                    state['offsets'].append((off, size))
                            b_writer.on_write = on_write_b
                except (IndexError, struct.error, UnicodeDecodeError):
                    pass
            a_writer.on_write = on_write_a
            return a_reader, a_writer, b_reader, b_writer
        net.make_pair = make_pair

        for c in clients:
            await c.start()
            await c.login()
        await up.shares.scan()
        await advance(2)
        remote = None
        for d in up.shares.shared_directories:
            for it in d.items:
                remote = it.get_remote_path()
        if remote is None:
            return ['HARNESS no shared item'], [], vs
        dl = await down.transfers.download('up', remote)
        state['dl_path'] = lambda: dl.local_path
        def sample():
            """the control-plane state of the real pair (model: `FileXfer.Ctl.S`), for the invariant of
            `C04_pair_no_requeue_lost`"""
            line = _ctl_sample(dl, next((t for t in up.transfers.transfers if t.is_upload()), None), state['pconns'])
            if not ctl_lines or ctl_lines[-1] != line:
                ctl_lines.append(line)

        # ---- run until the scripted faults are used up, then give the pair time; nobody calls the API again
        waited = 0.0
        def both_complete():
            u = next((t for t in up.transfers.transfers if t.is_upload()), None)
            return dl.state.VALUE == TransferState.COMPLETE and u is not None and u.state.VALUE == TransferState.COMPLETE

        while state['fconn'] < len(cuts) + 1 and waited < 4 * 3600 and not both_complete():
            for _ in range(5):
                await advance(1)
                sample()
            waited += 5
            loc = _read(dl.local_path)
            if loc != F[:len(loc)]:
                V('C04-prefix-corrupted', f'local file ({len(loc)} bytes) is not a prefix of the shared file',
                  observed=len(loc))
                break
        t_faults_over = loop.time()
        ul = None
        for i in range(int(SETTLE_AFTER_FAULTS / 10)):
            for _ in range(10 if i < 6 else 1):
                await advance(1 if i < 6 else 10)
                sample()
            ul = next((t for t in up.transfers.transfers if t.is_upload()), None)
            if dl.state.VALUE == TransferState.COMPLETE and ul is not None and ul.state.VALUE == TransferState.COMPLETE:
                break
        loc = _read(dl.local_path)
        dst = dl.state.VALUE.name + (f':{dl.fail_reason}' if dl.fail_reason else '')
        ust = (ul.state.VALUE.name + (f':{ul.fail_reason}' if ul.fail_reason else '')) if ul is not None else 'none'
        obs = [f'down={dst} up={ust} len={len(loc)} fconns={state["fconn"]} offsets={state["offsets"]} '
               f'settle={round(loop.time() - t_faults_over)} pfailed={state["pfailed"]}']
        for off, size in state['offsets']:
            if off != size:
                V('C04-wrong-offset', f'offset {off} on the wire while the local file holds {size} bytes',
                  observed=off, required=size)
        if loc != F[:len(loc)]:
            V('C04-prefix-corrupted', f'local file ({len(loc)} bytes) is not a prefix of the shared file',
              observed=len(loc))
        if dl.state.VALUE == TransferState.COMPLETE and loc != F:
            V('C04-complete-but-differs', f'download COMPLETE with {len(loc)} bytes, shared file has {N}',
              observed=len(loc), required=N)
        if True:        # by now the scripted faults are used up (or were never reached) and time has passed
            if not (dl.state.VALUE == TransferState.COMPLETE and ul is not None
                    and ul.state.VALUE == TransferState.COMPLETE and loc == F):
                V('C04-pair-not-finished',
                  f'{len(cuts)} cut(s) at {cuts}, then no more faults: after {SETTLE_AFTER_FAULTS:.0f} virtual seconds '
                  f'download is {dst}, upload is {ust}, {len(loc)}/{N} bytes, {state["fconn"]} file connections',
                  observed={'down': dst, 'up': ust, 'len': len(loc)},
                  required={'down': 'COMPLETE', 'up': 'COMPLETE', 'len': N})
        sample()
        return obs + [None] * len(ctl_lines), ctl_lines, vs
    finally:
        for c in clients:
            try:
                await c.stop()
            except Exception:
                pass
        net.uninstall()


async def _multi_main(loop, case: dict, tmp: str):
    """One downloader, several uploaders (``case['second']`` … each shares one file); the downloads are requested
    ``stagger`` virtual seconds apart, so that their initializations overlap (or not). No API call afterwards.
    Monitor: a download is COMPLETE only with the bytes of the file ITS uploader shares; every file connection
    carries the offset of the download from the user who opened it; all transfers finish."""
    from aioslsk.client import SoulSeekClient
    from aioslsk.settings import Settings
    from aioslsk.transfer.state import TransferState
    # a thread-pool round trip (aiofiles, os.path.exists in create_directory) suspends the caller as it does on a real
    # loop: two downloads of one file name that start in the same instant interleave at every such await
    loop.executor_suspends = bool(case.get('exsusp'))
    ups = [{'name': 'up', 'flen': case['flen'], 'mul': case['mul'], 'add': case['add']}]
    for i, u in enumerate(case['second']):
        ups.append({'name': f'up{i + 2}', 'flen': u['flen'], 'mul': u['mul'], 'add': u['add']})
    for u in ups:
        u['F'] = _pat(u['mul'], u['add'], 0, u['flen'])
    net = fakenet.FakeNet().install()
    vs = []

    def V(sig, what, **kw):
        vs.append(Violation(sig, what, case, **kw))

    clients = {}
    try:
        ports = {'down': 61000}
        for i, u in enumerate(ups):
            ports[u['name']] = 62000 + 10 * i
        server = _Server(ports)
        net.endpoints[2416] = fakenet.Endpoint('accept', server.srv.handler)
        for name in ports:
            dl = os.path.join(tmp, name, 'downloads')
            os.makedirs(dl, exist_ok=True)
            dirs = []
            if name != 'down':
                u = next(x for x in ups if x['name'] == name)
                share = os.path.join(tmp, name, 'shared', 'music')
                os.makedirs(share)
                with open(os.path.join(share, 'song.bin'), 'wb') as f:
                    f.write(u['F'])
                dirs = [{'path': os.path.join(tmp, name, 'shared'), 'share_mode': 'everyone'}]
            s = Settings(
                credentials={'username': name, 'password': 'pw'},
                network={'server': {'hostname': 'srv', 'port': 2416, 'reconnect': {'auto': False}},
                         'listening': {'port': ports[name], 'obfuscated_port': ports[name] + 1},
                         'upnp': {'enabled': False},
                         'limits': {'upload_speed_kbps': case.get('lim_up', 0),
                                    'download_speed_kbps': case.get('lim_down', 0)}},
                shares={'scan_on_start': False, 'download': dl, 'directories': dirs})
            clients[name] = SoulSeekClient(s)
        down = clients['down']
        cuts = list(case.get('cuts', []))
        state = {'fconn': 0, 'offsets': []}
        dls = {}
        real_make_pair = net.make_pair

        def make_pair(remote_addr):
            a_reader, a_writer, b_reader, b_writer = real_make_pair(remote_addr)
            lat = {'v': LATENCY}
            _add_latency(a_writer, loop, lat)
            _add_latency(b_writer, loop, lat)
            seen = {'init': False}

            def on_write_a(data):
                if seen['init']:
                    return
                seen['init'] = True
                buf = bytes(a_writer.sent)
                try:
                    if buf[4] == 1:
                        (ulen,) = struct.unpack('<I', buf[5:9])
                        who = buf[9:9 + ulen].decode()
                        typ = buf[9 + ulen + 4:9 + ulen + 5].decode()
                        if typ == 'P':
                            lat['v'] = case.get('lat_p', LATENCY)
                        if typ == 'F':
                            lat['v'] = case.get('lat_f_by', {}).get(who, case.get('lat_f', LATENCY))
                            idx = state['fconn']
                            state['fconn'] += 1
                            if idx < len(cuts):
                                a_writer.fail_after = len(buf) + 4 + cuts[idx]

                            def on_write_b(d, w=b_writer, who=who):
                                if len(w.sent) == 8:
                                    off = struct.unpack('<Q', bytes(w.sent))[0]
                                    t = dls.get(who)
                                    try:
                                        size = os.path.getsize(t.local_path) if t is not None and t.local_path else 0
                                    except OSError:
                                        size = 0
                                    state['offsets'].append((who, off, size))
                            b_writer.on_write = on_write_b
                except (IndexError, struct.error, UnicodeDecodeError):
                    pass
            a_writer.on_write = on_write_a
            return a_reader, a_writer, b_reader, b_writer
        net.make_pair = make_pair

        for c in clients.values():
            await c.start()
            await c.login()
        remotes = {}
        for u in ups:
            c = clients[u['name']]
            await c.shares.scan()
        await advance(2)
        for u in ups:
            for d in clients[u['name']].shares.shared_directories:
                for it in d.items:
                    remotes[u['name']] = it.get_remote_path()
        if len(remotes) != len(ups):
            return ['HARNESS no shared item'], [], vs
        for i, u in enumerate(ups):
            if i and case.get('stagger'):
                await advance(case['stagger'])
            dls[u['name']] = await down.transfers.download(u['name'], remotes[u['name']])

        def upload_of(name):
            return next((t for t in clients[name].transfers.transfers if t.is_upload()), None)

        def all_complete():
            return all(dls[u['name']].state.VALUE == TransferState.COMPLETE and upload_of(u['name']) is not None and
                       upload_of(u['name']).state.VALUE == TransferState.COMPLETE for u in ups)

        t0 = loop.time()
        for _ in range(int((SETTLE_AFTER_FAULTS + 600) / 10)):
            await advance(10)
            if all_complete() and state['fconn'] >= len(cuts):
                break
        parts = []
        for u in ups:
            t, ul = dls[u['name']], upload_of(u['name'])
            loc = _read(t.local_path)
            dst = t.state.VALUE.name + (f':{t.fail_reason}' if t.fail_reason else '')
            ust = (ul.state.VALUE.name + (f':{ul.fail_reason}' if ul.fail_reason else '')) if ul is not None else 'none'
            parts.append(f"{u['name']}: down={dst} up={ust} len={len(loc)}/{u['flen']} same={loc == u['F']}")
            if t.state.VALUE == TransferState.COMPLETE and loc != u['F']:
                other = next((x['name'] for x in ups if x is not u and x['F'] == loc), None)
                V('C04-complete-but-differs',
                  f"download of {u['name']}'s file is COMPLETE with {len(loc)} bytes that are not the file {u['name']} "
                  f"shares ({u['flen']} bytes)" + (f" — they are the file {other} shares" if other else ''),
                  observed={'len': len(loc), 'is_file_of': other}, required={'len': u['flen'], 'is_file_of': u['name']})
            elif loc != u['F'][:len(loc)]:
                V('C04-prefix-corrupted', f"local file of the download from {u['name']} ({len(loc)} bytes) is not a prefix "
                  'of the file that user shares', observed=len(loc))
            if not (t.state.VALUE == TransferState.COMPLETE and ul is not None and
                    ul.state.VALUE == TransferState.COMPLETE and loc == u['F']):
                V('C04-pair-not-finished',
                  f"{len(ups)} uploaders, {len(cuts)} cut(s), then no more faults: after {loop.time() - t0:.0f} virtual "
                  f"seconds the download from {u['name']} is {dst}, its upload is {ust}, {len(loc)}/{u['flen']} bytes",
                  observed={'down': dst, 'up': ust, 'len': len(loc)},
                  required={'down': 'COMPLETE', 'up': 'COMPLETE', 'len': u['flen']})
        for who, off, size in state['offsets']:
            if off != size:
                V('C04-wrong-offset', f'offset {off} sent on the file connection opened by {who} while the local file of the '
                  f'download from {who} holds {size} bytes', observed=off, required=size)
        obs = ['; '.join(parts) + f" fconns={state['fconn']} offsets={state['offsets']}"]
        return obs, [], vs
    finally:
        for c in clients.values():
            try:
                await c.stop()
            except Exception:
                pass
        net.uninstall()


def _read(path):
    try:
        with open(path, 'rb') as f:
            return f.read()
    except (OSError, TypeError):
        return b''


def eval_pair(case: dict, tmp: str):
    (obs, lines, vs), loop = simloop.run(_pair_main, case, tmp, wall_timeout=300)
    return obs, lines, vs


def gen_cases(rng: random.Random, n: int) -> list:
    out = []
    fixed = [
        {'flen': 0, 'cuts': []}, {'flen': 300, 'cuts': [300]}, {'flen': 300, 'cuts': [0]},
        {'flen': 20000, 'cuts': [8192, 1]},
    ]
    for i in range(n):
        if i < len(fixed):
            c = dict(fixed[i])
        else:
            N = rng.choice([0, 1, 128, 300, 8192, 8193, 20000, 3 * 8192])
            cuts = []
            have = 0
            for _ in range(rng.choice([0, 1, 1, 2, 3])):
                k = rng.choice([0, 1, 127, 128, 129, 8192, max(0, N - have - 1), max(0, N - have),
                                rng.randint(0, max(0, N - have))])
                k = min(k, max(0, N - have))
                cuts.append(k)
                have += k
            c = {'flen': N, 'cuts': cuts}
        lim = rng.choice([(0, 0), (0, 0), (0, 0), (500, 0), (0, 500), (200, 300)])
        if c['flen'] <= 400:
            lim = rng.choice([(0, 0), (0, 0), (1, 0), (0, 1), (500, 500)])
        c.update({'kind': 'pair', 'mul': rng.choice([1, 3, 7]), 'add': rng.randint(0, 255),
                  'lim_up': lim[0], 'lim_down': lim[1], 'gen': 'pair',
                  # delivery orders of the control messages vs. the file connection
                  'lat_p': rng.choice([0.005, 0.02, 0.02, 0.5, 3.0]), 'lat_f': rng.choice([0.005, 0.02, 0.02, 0.5]),
                  'rst_delay': rng.choice([0.0, 0.0, 0.01, 1.0, 10.0, 30.0, 400.0]),
                  # which end of the file connection learns of the break first (the other one `rst_delay` later)
                  'rst_first': rng.choice(['up', 'up', 'down']),
                  # how ticket / offset arrive on the file connection: whole, byte-wise, 1+rest, rest+1
                  'hs_split': rng.choice([None, None, 'bytes', 'bytes', 'first', 'last']),
                  'hs_gap': rng.choice([0.0, 0.001, 0.05, 0.3])})
        out.append(c)
    # whatever breaks the file connection breaks the peer connection(s) between the two clients too: the next control
    # write of the uploader / the downloader / both on a connection that existed then fails (the writer is told, nothing
    # a write had accepted is lost) — PeerUploadFailed, the re-queue request, the next offer or its reply
    for i in range(max(4, (2 * n) // 5)):
        N = rng.choice([300, 8193, 20000, 3 * 8192])
        cuts, have = [], 0
        for _ in range(rng.choice([1, 1, 1, 2])):
            k = rng.choice([0, 1, 128, 8192, max(0, N - have - 1), max(0, N - have), rng.randint(0, max(0, N - have))])
            k = min(k, max(0, N - have))
            cuts.append(k)
            have += k
        c = {'kind': 'pair', 'gen': 'pair-pfault', 'flen': N, 'cuts': cuts, 'mul': rng.choice([1, 3, 7]),
             'add': rng.randint(0, 255), 'lim_up': 0, 'lim_down': 0,
             'lat_p': rng.choice([0.005, 0.02, 0.02, 0.02, 0.5, 3.0]), 'lat_f': rng.choice([0.005, 0.02, 0.5]),
             'rst_delay': rng.choice([0.0, 0.01, 1.0, 1.0, 10.0, 10.0, 30.0, 400.0]),
             'rst_first': rng.choice(['down', 'down', 'down', 'up', 'up']), 'hs_split': None,
             'pfaults': [{'who': rng.choice(['up', 'up', 'both', 'both', 'down']), 'n': 1,
                          'delay': rng.choice([0, 0, 0, 0.5, 5.0]), 'skip': rng.choice([0, 0, 0, 1, 2])}
                         for _ in cuts]}
        if i % 2 == 0:
            # the schedule in which the downloader depends on being told: it learns of the break first, its re-queue
            # request reaches the uploader while that one still uploads; then the uploader's message cannot be written
            c.update({'rst_first': 'down', 'rst_delay': rng.choice([1.0, 10.0, 30.0, 200.0]),
                      'lat_p': rng.choice([0.005, 0.02, 0.02, 0.5])})
            c['pfaults'] = [{'who': rng.choice(['up', 'up', 'up', 'both']), 'n': 1, 'delay': 0, 'skip': 0} for _ in cuts]
            if cuts[0] >= N:
                cuts[0] = N - 1
        elif i % 8 == 3:
            # the downloader cannot be reached for a while: the uploader learns of the break first, PeerUploadFailed
            # takes the whole connection attempt (~60 s) and then fails; the downloader's own request (it can reach
            # the uploader) arrives meanwhile
            c.update({'rst_first': rng.choice(['up', 'up', 'up', 'down']), 'rst_delay': rng.choice([1.0, 10.0, 30.0]),
                      'lat_p': rng.choice([0.005, 0.02, 0.5])})
            c['pfaults'] = [{'mode': 'unreachable', 'who': 'down', 'window': rng.choice([5.0, 30.0, 100.0])}
                            for _ in cuts]
        elif i % 4 == 1:
            # the downloader's re-queue request(s) still get through, its PeerTransferReply to the next offer does not
            c.update({'rst_delay': rng.choice([1.0, 10.0]), 'lat_p': rng.choice([0.005, 0.02, 0.5])})
            c['pfaults'] = [{'who': 'down', 'n': 1, 'delay': 0, 'skip': rng.choice([1, 2, 2])} for _ in cuts]
        out.append(c)
    # several uploaders at once (every fresh uploader hands out the same first ticket)
    for i in range(max(2, n // 5)):
        N = rng.choice([300, 8193, 20000])
        second = [{'flen': rng.choice([N, N, N, 300, N + 128]), 'mul': rng.choice([3, 5]), 'add': rng.randint(0, 255)}
                  for _ in range(rng.choice([1, 1, 2]))]
        names = ['up'] + [f'up{j + 2}' for j in range(len(second))]
        slow = rng.choice([None, None] + names)
        out.append({'kind': 'pair', 'gen': 'pair', 'flen': N, 'mul': 1, 'add': rng.randint(0, 255), 'second': second,
                    'stagger': rng.choice([0, 0, 0.001, 0.03, 2.0]), 'cuts': rng.choice([[], [], [], [rng.randint(0, N)]]),
                    'lat_p': rng.choice([0.005, 0.02, 0.5]), 'lat_f': rng.choice([0.005, 0.02]),
                    'lat_f_by': {slow: rng.choice([0.1, 0.5, 2.0])} if slow else {},
                    'lim_up': rng.choice([0, 0, 500]), 'lim_down': rng.choice([0, 0, 500])})
        if i % 2 == 0:
            # executor round trips suspend; most of these start in the same instant (the window between "this name is
            # free" and the claim of the name can only be entered by a download that starts inside it)
            out[-1]['exsusp'] = True
            if i % 8 != 6:
                out[-1]['stagger'] = 0
    return out
